//! C18 — typed event (de)serialization dispatches by type and is a stable fixpoint.
//!
//! Requests (objects are token-encoded entry lists in text order, duplicates allowed):
//!   `c18.cell <Enum> s<type> <sk|nosk> <orig|red>`        → `ok <kind> <Variant|custom> <orig|red> s<type>` / `err`
//!        one cell of the dispatch table; answered by the SPEC side of the driver.
//!   `c18.dispatch <Enum> <ok|any> <event object>`          → same answer format
//!        `ok`: the event is spec-shaped, a rejection is a property failure; `any`: only compared.
//!   `c18.content <kind> <ok|any> s<type> <content object>` → `ok <Variant|custom> s<type>` / `err`
//!   `c18.getfield s<text> s<field> <value tokens of the same text>` → `some <tokens>` / `none` / `err`
//!   `c18.raw s<text>`                                      → `ok s<text held by Raw>` / `err`
//!   `c18.schema <kind> s<type> <content object> <schema tokens>` → `ok <output, entries sorted>` / `err`
//!        the model of the serde-derived per-type code (`Model/ContentSchema.lean`) against
//!        `from_parts` → `to_string`; schema tokens and facts: see `model.rs`.
mod jt;
mod model;
mod schema;

use std::fmt::Debug;

use h_lib::{h_util, stok, Outcome, Req, Rng};
use jt::{arr, i, obj, s, J};
use ruma_common::{
    canonical_json::{redact, RedactedBecause},
    serde::Raw,
    CanonicalJsonObject, CanonicalJsonValue,
};
use ruma_events::{
    AnyEphemeralRoomEvent, AnyEphemeralRoomEventContent, AnyGlobalAccountDataEvent,
    AnyGlobalAccountDataEventContent, AnyInitialStateEvent, AnyMessageLikeEvent,
    AnyMessageLikeEventContent, AnyRoomAccountDataEvent, AnyRoomAccountDataEventContent,
    AnyStateEvent, AnyStateEventContent, AnyStrippedStateEvent, AnySyncEphemeralRoomEvent,
    AnySyncMessageLikeEvent, AnySyncStateEvent, AnySyncTimelineEvent, AnyTimelineEvent,
    AnyToDeviceEvent, AnyToDeviceEventContent, EventContent, EventContentFromType,
};
use schema::{all_schemas, Mode, TypeSchema};
use serde_json::value::RawValue;

// ------------------------------------------------------------------------------------------
// Observing the real enums
// ------------------------------------------------------------------------------------------

/// What one deserialised event shows through its public API.
#[derive(Debug, PartialEq, Clone, Default)]
struct Desc {
    /// constructor chain read off `Debug`: e.g. [MessageLike, RoomMessage, Original]
    ctors: Vec<String>,
    event_type: String,
    sender: Option<String>,
    event_id: Option<String>,
    ts: Option<i128>,
    state_key: Option<String>,
    room_id: Option<String>,
    is_redacted: Option<bool>,
}

/// Leading constructor names of a derived `Debug` rendering: `A(B(C(Struct { …` → [A, B, C].
fn ctor_chain<T: Debug>(v: &T) -> Vec<String> {
    let text = format!("{v:?}");
    let mut out = Vec::new();
    let mut rest = text.as_str();
    loop {
        let end = rest.find(|c: char| !(c.is_alphanumeric() || c == '_')).unwrap_or(rest.len());
        let (name, tail) = rest.split_at(end);
        if name.is_empty() {
            break;
        }
        if let Some(t) = tail.strip_prefix('(') {
            out.push(name.to_owned());
            rest = t;
        } else {
            break;
        }
    }
    out
}

const ENUMS: &[&str] = &[
    "AnyGlobalAccountDataEvent",
    "AnyRoomAccountDataEvent",
    "AnyEphemeralRoomEvent",
    "AnySyncEphemeralRoomEvent",
    "AnyMessageLikeEvent",
    "AnySyncMessageLikeEvent",
    "AnyStateEvent",
    "AnySyncStateEvent",
    "AnyStrippedStateEvent",
    "AnyInitialStateEvent",
    "AnyToDeviceEvent",
    "AnyTimelineEvent",
    "AnySyncTimelineEvent",
];

fn enum_kind(e: &str) -> &'static str {
    match e {
        "AnyGlobalAccountDataEvent" => "globalAccountData",
        "AnyRoomAccountDataEvent" => "roomAccountData",
        "AnyEphemeralRoomEvent" | "AnySyncEphemeralRoomEvent" => "ephemeralRoom",
        "AnyMessageLikeEvent" | "AnySyncMessageLikeEvent" => "messageLike",
        "AnyStateEvent" | "AnySyncStateEvent" | "AnyStrippedStateEvent" | "AnyInitialStateEvent" => "state",
        "AnyToDeviceEvent" => "toDevice",
        _ => "timeline",
    }
}
fn is_timeline(e: &str) -> bool {
    enum_kind(e) == "timeline"
}
fn maybe_redacted(e: &str) -> bool {
    matches!(
        e,
        "AnyMessageLikeEvent" | "AnySyncMessageLikeEvent" | "AnyStateEvent" | "AnySyncStateEvent" | "AnyTimelineEvent" | "AnySyncTimelineEvent"
    )
}
fn is_sync(e: &str) -> bool {
    e.contains("Sync")
}

/// Deserialise `text` into the named enum with the real code and read everything off it.
fn observe(e: &str, text: &str) -> Option<Result<Desc, ()>> {
    macro_rules! go {
        ($ty:ty, |$ev:ident, $d:ident| $body:block) => {{
            match serde_json::from_str::<$ty>(text) {
                Err(_) => Err(()),
                Ok($ev) => {
                    #[allow(unused_mut)]
                    let mut $d = Desc { ctors: ctor_chain(&$ev), event_type: $ev.event_type().to_string(), ..Default::default() };
                    $body
                    Ok($d)
                }
            }
        }};
    }
    Some(match e {
        "AnyGlobalAccountDataEvent" => go!(AnyGlobalAccountDataEvent, |ev, d| {}),
        "AnyRoomAccountDataEvent" => go!(AnyRoomAccountDataEvent, |ev, d| {}),
        "AnyEphemeralRoomEvent" => go!(AnyEphemeralRoomEvent, |ev, d| {
            d.room_id = Some(ev.room_id().to_string());
        }),
        "AnySyncEphemeralRoomEvent" => go!(AnySyncEphemeralRoomEvent, |ev, d| {}),
        "AnyMessageLikeEvent" => go!(AnyMessageLikeEvent, |ev, d| {
            d.sender = Some(ev.sender().to_string());
            d.event_id = Some(ev.event_id().to_string());
            d.ts = Some(i128::from(ev.origin_server_ts().0));
            d.room_id = Some(ev.room_id().to_string());
            d.is_redacted = Some(ev.is_redacted());
        }),
        "AnySyncMessageLikeEvent" => go!(AnySyncMessageLikeEvent, |ev, d| {
            d.sender = Some(ev.sender().to_string());
            d.event_id = Some(ev.event_id().to_string());
            d.ts = Some(i128::from(ev.origin_server_ts().0));
            d.is_redacted = Some(ev.is_redacted());
        }),
        "AnyStateEvent" => go!(AnyStateEvent, |ev, d| {
            d.sender = Some(ev.sender().to_string());
            d.event_id = Some(ev.event_id().to_string());
            d.ts = Some(i128::from(ev.origin_server_ts().0));
            d.room_id = Some(ev.room_id().to_string());
            d.state_key = Some(ev.state_key().to_owned());
            d.is_redacted = Some(ev.is_redacted());
        }),
        "AnySyncStateEvent" => go!(AnySyncStateEvent, |ev, d| {
            d.sender = Some(ev.sender().to_string());
            d.event_id = Some(ev.event_id().to_string());
            d.ts = Some(i128::from(ev.origin_server_ts().0));
            d.state_key = Some(ev.state_key().to_owned());
            d.is_redacted = Some(ev.is_redacted());
        }),
        "AnyStrippedStateEvent" => go!(AnyStrippedStateEvent, |ev, d| {
            d.sender = Some(ev.sender().to_string());
            d.state_key = Some(ev.state_key().to_owned());
        }),
        "AnyInitialStateEvent" => go!(AnyInitialStateEvent, |ev, d| {
            d.state_key = Some(ev.state_key().to_owned());
        }),
        "AnyToDeviceEvent" => go!(AnyToDeviceEvent, |ev, d| {
            d.sender = Some(ev.sender().to_string());
        }),
        "AnyTimelineEvent" => go!(AnyTimelineEvent, |ev, d| {
            d.sender = Some(ev.sender().to_string());
            d.event_id = Some(ev.event_id().to_string());
            d.ts = Some(i128::from(ev.origin_server_ts().0));
            d.room_id = Some(ev.room_id().to_string());
            match &ev {
                AnyTimelineEvent::State(x) => {
                    d.state_key = Some(x.state_key().to_owned());
                    d.is_redacted = Some(x.is_redacted());
                }
                AnyTimelineEvent::MessageLike(x) => d.is_redacted = Some(x.is_redacted()),
            }
        }),
        "AnySyncTimelineEvent" => go!(AnySyncTimelineEvent, |ev, d| {
            d.sender = Some(ev.sender().to_string());
            d.event_id = Some(ev.event_id().to_string());
            d.ts = Some(i128::from(ev.origin_server_ts().0));
            match &ev {
                AnySyncTimelineEvent::State(x) => {
                    d.state_key = Some(x.state_key().to_owned());
                    d.is_redacted = Some(x.is_redacted());
                }
                AnySyncTimelineEvent::MessageLike(x) => d.is_redacted = Some(x.is_redacted()),
            }
        }),
        _ => return None,
    })
}

/// The protocol answer for a successful dispatch.
fn sel_line(e: &str, d: &Desc) -> String {
    let mut c = d.ctors.iter().map(String::as_str);
    let kind = if is_timeline(e) {
        match c.next() {
            Some("MessageLike") => "messageLike",
            Some("State") => "state",
            _ => "?",
        }
    } else {
        enum_kind(e)
    };
    let variant = match c.next() {
        Some("_Custom") => "custom".to_owned(),
        Some(v) => v.to_owned(),
        None => "?".to_owned(),
    };
    let red = match c.next() {
        Some("Redacted") => "red",
        _ => "orig",
    };
    format!("ok {kind} {variant} {red} {}", stok(&d.event_type))
}

/// Content enums: `from_parts`, serialise, variant name, `event_type()`.
struct ContentObs {
    variant: String,
    event_type: String,
    /// `None`: serialisation refused (the `_Custom` variant is deserialise-only by design)
    text: Option<String>,
    /// `Debug` rendering of the typed value (everything the value holds)
    debug: String,
}

fn observe_content(kind: &str, ty: &str, text: &str) -> Option<Result<ContentObs, ()>> {
    let raw = match RawValue::from_string(text.to_owned()) {
        Ok(r) => r,
        Err(_) => return Some(Err(())),
    };
    macro_rules! go {
        ($t:ty) => {{
            match <$t as EventContentFromType>::from_parts(ty, &raw) {
                Err(_) => Err(()),
                Ok(c) => {
                    let dbg = format!("{c:?}");
                    let end = dbg.find(|ch: char| !(ch.is_alphanumeric() || ch == '_')).unwrap_or(dbg.len());
                    let variant = if &dbg[..end] == "_Custom" { "custom".to_owned() } else { dbg[..end].to_owned() };
                    Ok(ContentObs { variant, event_type: c.event_type().to_string(), text: serde_json::to_string(&c).ok(), debug: dbg })
                }
            }
        }};
    }
    Some(match kind {
        "messageLike" => go!(AnyMessageLikeEventContent),
        "state" => go!(AnyStateEventContent),
        "ephemeralRoom" => go!(AnyEphemeralRoomEventContent),
        "globalAccountData" => go!(AnyGlobalAccountDataEventContent),
        "roomAccountData" => go!(AnyRoomAccountDataEventContent),
        "toDevice" => go!(AnyToDeviceEventContent),
        _ => return None,
    })
}

// ------------------------------------------------------------------------------------------
// Building events
// ------------------------------------------------------------------------------------------

const KINDS: &[&str] = &["globalAccountData", "roomAccountData", "ephemeralRoom", "messageLike", "state", "toDevice"];

fn schema_for<'a>(schemas: &'a [TypeSchema], kind: &str, ty: &str) -> Option<&'a TypeSchema> {
    let ty = canonical_type(kind, ty);
    schemas.iter().find(|t| t.kind == kind && (t.ty == ty || (t.ty.ends_with(".*") && ty.starts_with(&t.ty[..t.ty.len() - 1]))))
}

const MAP_SHAPED: &[&str] = &["m.direct", "m.receipt"];

/// The envelope the specification prescribes for the enum's format, around `content`.
fn envelope(rng: &mut Rng, e: &str, ty: &str, content: J, state_key: Option<J>, mode: Mode) -> J {
    let mut es: Vec<(String, J)> = vec![("type".into(), s(ty)), ("content".into(), content)];
    let room_event = matches!(e, "AnyMessageLikeEvent" | "AnySyncMessageLikeEvent" | "AnyStateEvent" | "AnySyncStateEvent" | "AnyTimelineEvent" | "AnySyncTimelineEvent");
    if room_event {
        es.push(("event_id".into(), schema::gen(rng, &schema::S::EventId, mode)));
        es.push(("sender".into(), schema::gen(rng, &schema::S::UserId, mode)));
        es.push(("origin_server_ts".into(), schema::gen(rng, &schema::S::Ts, mode)));
        if !is_sync(e) {
            es.push(("room_id".into(), schema::gen(rng, &schema::S::RoomId, mode)));
        }
        let with_unsigned = match mode {
            Mode::Min => false,
            Mode::Max => true,
            Mode::Rand => rng.chance(1, 2),
        };
        if with_unsigned {
            let mut u = Vec::new();
            if mode == Mode::Max || rng.chance(1, 2) {
                u.push(("age".to_owned(), i(rng.range(0, 100000))));
            }
            if mode == Mode::Max || rng.chance(1, 3) {
                u.push(("transaction_id".to_owned(), s("txn-1")));
            }
            es.push(("unsigned".into(), J::Obj(u)));
        }
    }
    if matches!(e, "AnyStrippedStateEvent" | "AnyToDeviceEvent") {
        es.push(("sender".into(), schema::gen(rng, &schema::S::UserId, mode)));
    }
    if e == "AnyEphemeralRoomEvent" {
        es.push(("room_id".into(), schema::gen(rng, &schema::S::RoomId, mode)));
    }
    if let Some(sk) = state_key {
        es.push(("state_key".into(), sk));
    }
    J::Obj(es)
}

fn redaction_event(rng: &mut Rng, v11: bool, mode: Mode) -> J {
    let mut content = Vec::new();
    if mode != Mode::Min && rng.chance(1, 2) {
        content.push(("reason".to_owned(), s("spam")));
    }
    let mut es = vec![
        ("type".to_owned(), s("m.room.redaction")),
        ("event_id".to_owned(), s("$redaction:example.org")),
        ("sender".to_owned(), s("@mod:example.org")),
        ("origin_server_ts".to_owned(), i(1432735824999)),
    ];
    if v11 || rng.chance(1, 3) {
        content.push(("redacts".to_owned(), s("$ev1:example.org")));
    }
    if !v11 || rng.chance(1, 3) {
        es.push(("redacts".to_owned(), s("$ev1:example.org")));
    }
    if mode != Mode::Min && rng.chance(1, 2) {
        es.push(("room_id".to_owned(), s("!room:example.org")));
    }
    if mode != Mode::Min && rng.chance(1, 3) {
        es.push(("unsigned".to_owned(), obj(vec![("age", i(5))])));
    }
    es.push(("content".to_owned(), J::Obj(content)));
    J::Obj(es)
}

fn j_to_value(j: &J) -> serde_json::Value {
    serde_json::from_str(&jt::to_text(j)).expect("generated text is JSON")
}

fn cj_to_j(v: &CanonicalJsonValue) -> J {
    match v {
        CanonicalJsonValue::Null => J::Null,
        CanonicalJsonValue::Bool(b) => J::Bool(*b),
        CanonicalJsonValue::Integer(n) => J::Int(i128::from(i64::from(*n))),
        CanonicalJsonValue::String(x) => J::Str(x.clone()),
        CanonicalJsonValue::Array(xs) => J::Arr(xs.iter().map(cj_to_j).collect()),
        CanonicalJsonValue::Object(o) => J::Obj(o.iter().map(|(k, v)| (k.clone(), cj_to_j(v))).collect()),
    }
}

/// The redacted form of a full-format event under room version `ver`, made by the reference
/// redaction algorithm (`ruma_common::canonical_json::redact`, property C04).
fn redacted_form(ev: &J, ver: u32, because: &J) -> Option<J> {
    let to_obj = |j: &J| -> Option<CanonicalJsonObject> {
        match CanonicalJsonValue::try_from(j_to_value(j)).ok()? {
            CanonicalJsonValue::Object(o) => Some(o),
            _ => None,
        }
    };
    let rules = h_lib::version_id(ver).rules()?.redaction;
    let out = redact(to_obj(ev)?, &rules, Some(RedactedBecause::from_json(to_obj(because)?))).ok()?;
    Some(cj_to_j(&CanonicalJsonValue::Object(out)))
}

fn shuffle_deep(rng: &mut Rng, j: &mut J) {
    match j {
        J::Obj(es) => {
            rng.shuffle(es);
            for (_, v) in es.iter_mut() {
                shuffle_deep(rng, v);
            }
        }
        J::Arr(xs) => xs.iter_mut().for_each(|x| shuffle_deep(rng, x)),
        _ => {}
    }
}

fn extra_value(rng: &mut Rng) -> J {
    match rng.below(5) {
        0 => J::Null,
        1 => i(42),
        2 => s("extra"),
        3 => arr(vec![J::Bool(true), obj(vec![("deep", J::Null)])]),
        _ => obj(vec![("type", s("m.room.message")), ("state_key", s("x")), ("redacted_because", i(1))]),
    }
}

const EXTRA_KEYS: &[&str] = &["zz.extra", "org.example.unknown", "aa_extra", "Type", "contents"];

/// Add unknown fields at the top level, in `content` (unless it is a map) and in `unsigned`.
fn add_extras(rng: &mut Rng, ev: &mut J, ty: &str) {
    if let Some(es) = ev.entries_mut() {
        for (k, v) in es.iter_mut() {
            if (k == "content" && !MAP_SHAPED.contains(&ty)) || k == "unsigned" {
                if let J::Obj(inner) = v {
                    if rng.chance(1, 2) {
                        let pos = rng.below(inner.len() + 1);
                        inner.insert(pos, ((*rng.pick(EXTRA_KEYS)).to_owned(), extra_value(rng)));
                    }
                }
            }
        }
        let n = rng.below(3);
        for _ in 0..n {
            let pos = rng.below(es.len() + 1);
            let key = *rng.pick(EXTRA_KEYS);
            es.insert(pos, (key.to_owned(), extra_value(rng)));
        }
    }
}

/// One spec-shaped event for enum `e` and type `ty` (content from the schema of `kind`, `{}`-ish
/// for a type the kind does not define).
struct Built {
    ev: J,
}

fn build_event(rng: &mut Rng, schemas: &[TypeSchema], e: &str, ty: &str, with_sk: bool, redacted: Option<u32>, mode: Mode) -> Option<Built> {
    let kind = if is_timeline(e) {
        if with_sk { "state" } else { "messageLike" }
    } else {
        enum_kind(e)
    };
    let sch = schema_for(schemas, kind, ty);
    let content = match sch {
        Some(t) => schema::gen(rng, &t.content, mode),
        None => {
            if mode == Mode::Min { J::Obj(vec![]) } else { obj(vec![("custom_field", extra_value(rng)), ("body", s("b"))]) }
        }
    };
    let state_key = if kind == "state" && (with_sk || !is_timeline(e)) {
        Some(match sch {
            Some(t) => schema::gen(rng, &t.state_key, mode),
            None => s(rng.pick(&["", "custom-key", "@alice:example.org"])),
        })
    } else {
        None
    };
    let mut content = content;
    if ty == "m.room.redaction" && kind == "messageLike" {
        // room versions up to 10 carry `redacts` at the top level, 11 in content; both may be present
        let top = rng.chance(1, 2);
        if !top && content.get("redacts").is_none() {
            content.set("redacts", s("$ev1:example.org"));
        }
        let mut ev = envelope(rng, e, ty, content, state_key, mode);
        if top {
            ev.set("redacts", s("$143273582443PhrSn:example.org"));
        }
        return finish_event(rng, ev, redacted, mode);
    }
    let ev = envelope(rng, e, ty, content, state_key, mode);
    finish_event(rng, ev, redacted, mode)
}

fn finish_event(rng: &mut Rng, mut ev: J, redacted: Option<u32>, mode: Mode) -> Option<Built> {
    if let Some(ver) = redacted {
        // redact the full-format event (room_id present), then drop room_id again for sync formats
        let had_room = ev.get("room_id").is_some();
        if !had_room {
            ev.set("room_id", s("!room:example.org"));
        }
        let because = redaction_event(rng, ver >= 11, mode);
        let mut red = redacted_form(&ev, ver, &because)?;
        if !had_room {
            red.remove("room_id");
        }
        ev = red;
    }
    Some(Built { ev })
}

// ------------------------------------------------------------------------------------------
// T3 oracles
// ------------------------------------------------------------------------------------------

fn req_rng(req: &str) -> Rng {
    let mut h: u64 = 0xcbf29ce484222325;
    for b in req.bytes() {
        h = (h ^ u64::from(b)).wrapping_mul(0x100000001b3);
    }
    Rng::new(h)
}

fn unique<'a>(ev: &'a J, k: &str) -> Option<&'a J> {
    let mut it = ev.entries().iter().filter(|(kk, _)| kk == k);
    let first = it.next()?;
    if it.next().is_some() {
        return None;
    }
    Some(&first.1)
}

/// Declared alternative spellings (reported under the stable type).
fn canonical_type<'a>(kind: &str, t: &'a str) -> &'a str {
    match (kind, t) {
        ("messageLike", "org.matrix.call.sdp_stream_metadata_changed") => "m.call.sdp_stream_metadata_changed",
        (_, t) => t,
    }
}

fn check_accessors(e: &str, ev: &J, d: &Desc, t3: &mut Vec<String>) {
    let js = |k: &str| unique(ev, k).and_then(J::as_str).map(str::to_owned);
    if let Some(t) = js("type") {
        let kind = match (enum_kind(e), d.ctors.first().map(String::as_str)) {
            ("timeline", Some("MessageLike")) => "messageLike",
            ("timeline", _) => "state",
            (k, _) => k,
        };
        if d.event_type != canonical_type(kind, &t) {
            t3.push(format!("event_type() = {:?} but the JSON type is {t:?}", d.event_type));
        }
    }
    if d.sender.is_some() && d.sender != js("sender") {
        t3.push(format!("sender() = {:?} differs from the JSON", d.sender));
    }
    if d.event_id.is_some() && d.event_id != js("event_id") {
        t3.push(format!("event_id() = {:?} differs from the JSON", d.event_id));
    }
    if d.room_id.is_some() && d.room_id != js("room_id") {
        t3.push(format!("room_id() = {:?} differs from the JSON", d.room_id));
    }
    if d.state_key.is_some() && d.state_key != js("state_key") {
        // InitialStateEvent defaults a missing state_key to ""
        if !(e == "AnyInitialStateEvent" && unique(ev, "state_key").is_none() && d.state_key.as_deref() == Some("")) {
            t3.push(format!("state_key() = {:?} differs from the JSON", d.state_key));
        }
    }
    if let Some(ts) = d.ts {
        match unique(ev, "origin_server_ts") {
            Some(J::Int(n)) if *n == ts => {}
            _ => t3.push(format!("origin_server_ts() = {ts} differs from the JSON")),
        }
    }
    if let Some(r) = d.is_redacted {
        let ctor_red = d.ctors.iter().any(|c| c == "Redacted");
        if r != ctor_red {
            t3.push("is_redacted() disagrees with the selected variant".into());
        }
    }
}

fn run_dispatch(req: &str, e: &str, expect_ok: bool, ev: &J) -> Outcome {
    let text = jt::to_text(ev);
    let Some(res) = observe(e, &text) else { return Outcome::bad() };
    let mut t3 = Vec::new();
    let imp = match &res {
        Err(()) => {
            if expect_ok {
                t3.push(format!("{e} rejected a spec-shaped event"));
            }
            "err".to_owned()
        }
        Ok(d) => {
            check_accessors(e, ev, d, &mut t3);
            let mut rng = req_rng(req);
            if !ev.has_dup_keys_deep() {
                // key order independence (all levels)
                for _ in 0..2 {
                    let mut p = ev.clone();
                    shuffle_deep(&mut rng, &mut p);
                    match observe(e, &jt::to_text(&p)) {
                        Some(Ok(d2)) if d2 == *d => {}
                        _ => {
                            t3.push("result depends on key order".into());
                            break;
                        }
                    }
                }
            }
            if expect_ok {
                // unknown extra fields never cause failure, nor change what is read
                let ty = unique(ev, "type").and_then(J::as_str).unwrap_or("").to_owned();
                let mut p = ev.clone();
                add_extras(&mut rng, &mut p, &ty);
                match observe(e, &jt::to_text(&p)) {
                    Some(Ok(d2)) if d2 == *d => {}
                    Some(Ok(_)) => t3.push("unknown extra fields changed the result".into()),
                    _ => t3.push("unknown extra fields caused a rejection".into()),
                }
                // Raw<T> round trip of the same text
                if let Ok(raw) = Raw::<()>::from_json_string(text.clone()) {
                    if raw.json().get() != text {
                        t3.push("Raw::json() is not the original text".into());
                    }
                } else {
                    t3.push("Raw::from_json_string rejected the event text".into());
                }
            }
            sel_line(e, d)
        }
    };
    // a state event read through a timeline enum is read exactly as through the state enum
    if is_timeline(e) {
        if let Some(sk) = unique(ev, "state_key") {
            if !matches!(sk, J::Null) {
                let se = if is_sync(e) { "AnySyncStateEvent" } else { "AnyStateEvent" };
                match (&res, observe(se, &text)) {
                    (Ok(d), Some(Ok(d2))) => {
                        if d.ctors.first().map(String::as_str) != Some("State") || d.ctors[1..] != d2.ctors[..] || d.state_key != d2.state_key || d.event_type != d2.event_type || d.is_redacted != d2.is_redacted {
                            t3.push(format!("{e} and {se} read the same state event differently"));
                        }
                    }
                    (Err(()), Some(Err(()))) => {}
                    (Ok(_), _) => t3.push(format!("{e} accepts a state event that {se} rejects")),
                    (Err(()), _) => t3.push(format!("{e} rejects a state event that {se} accepts")),
                }
            }
        }
    }
    Outcome { imp, t3 }
}

/// Every key of `out` that `inp` also has must carry the same value (recursively); with
/// `strict`, every key of `inp` that is not an unknown extra must still be there.
fn compare_trees(path: &str, inp: &J, out: &J, strict: bool, t3: &mut Vec<String>) {
    match (inp, out) {
        (J::Obj(a), J::Obj(b)) => {
            for (k, vb) in b {
                if let Some((_, va)) = a.iter().rev().find(|(ka, _)| ka == k) {
                    compare_trees(&format!("{path}/{k}"), va, vb, strict, t3);
                }
            }
            if strict {
                for (k, _) in a {
                    if !EXTRA_KEYS.contains(&k.as_str()) && !b.iter().any(|(kb, _)| kb == k) {
                        t3.push(format!("field {path}/{k} of the input is missing from the output"));
                    }
                }
            }
        }
        (J::Arr(a), J::Arr(b)) => {
            if SET_VALUED.iter().any(|sfx| path.ends_with(sfx)) {
                // the specification gives these arrays set semantics; the code keeps a sorted set
                let norm = |xs: &Vec<J>| {
                    let mut v: Vec<String> = xs.iter().map(jt::to_text).collect();
                    v.sort();
                    v.dedup();
                    v
                };
                if norm(a) != norm(b) {
                    t3.push(format!("set at {path} changed"));
                }
            } else if a.len() != b.len() {
                t3.push(format!("array at {path} changed length {} -> {}", a.len(), b.len()));
            } else {
                for (n, (x, y)) in a.iter().zip(b).enumerate() {
                    compare_trees(&format!("{path}/{n}"), x, y, strict, t3);
                }
            }
        }
        (a, b) => {
            let same = match (a.num(), b.num()) {
                (Some(x), Some(y)) => x == y,
                _ => a == b,
            };
            if !same {
                t3.push(format!("value at {path} changed: {} -> {}", jt::to_text(a), jt::to_text(b)));
            }
        }
    }
}

/// Arrays the specification treats as sets.
const SET_VALUED: &[&str] = &["/m.mentions/user_ids"];

fn run_content(req: &str, kind: &str, expect_ok: bool, ty: &str, content: &J) -> Outcome {
    let text = jt::to_text(content);
    let Some(res) = observe_content(kind, ty, &text) else { return Outcome::bad() };
    let mut t3 = Vec::new();
    let imp = match res {
        Err(()) => {
            if expect_ok {
                t3.push(format!("spec-shaped {ty} content was rejected"));
            }
            "err".to_owned()
        }
        Ok(c) => {
            // "changes no value that was present": the `rel_type` and `event_id` of an `m.room.encrypted`
            // relation come back as they were given (the relation is chosen by its `rel_type`, whatever
            // else — an `m.in_reply_to` — accompanies it)
            // the REDACTED content types are (de)serialised too (a redacted state event in a sync response
            // is re-serialised by clients and bridges): for m.room.power_levels, what survives redaction is a
            // fixpoint of RedactedRoomPowerLevelsEventContent — read, written, read again gives the same value
            if ty == "m.room.power_levels" {
                use ruma_events::room::power_levels::RedactedRoomPowerLevelsEventContent as Red;
                if let Ok(t1) = serde_json::from_str::<Red>(&text) {
                    match serde_json::to_string(&t1).ok().and_then(|s1| serde_json::from_str::<Red>(&s1).ok().map(|t2| (s1, t2))) {
                        Some((s1, t2)) => {
                            if format!("{t1:?}") != format!("{t2:?}") {
                                t3.push(format!("redacted power-levels content is not a fixpoint: {t1:?} was written as {s1} and read back as {t2:?}"));
                            }
                        }
                        None => t3.push("redacted power-levels content does not survive its own serialisation".into()),
                    }
                }
            }
            if ty == "m.room.encrypted" {
                if let (Some(rin), Some(s1)) = (content.get("m.relates_to"), &c.text) {
                    let rout = jt::parse_text(s1).and_then(|o| o.get("m.relates_to").cloned());
                    let spec_rel = matches!(rin.get("rel_type").and_then(J::as_str), Some("m.reference" | "m.replace" | "m.thread" | "m.annotation"));
                    for k in ["rel_type", "event_id"] {
                        if !spec_rel {
                            break;
                        }
                        if let Some(v) = rin.get(k).and_then(J::as_str) {
                            let got = rout.as_ref().and_then(|r| r.get(k)).and_then(J::as_str);
                            if got != Some(v) {
                                t3.push(format!("m.relates_to.{k} = {v:?} of the input came back as {got:?}: {s1}"));
                            }
                        }
                    }
                }
            }
            if let Some(s1) = &c.text {
                match jt::parse_text(s1) {
                    None => t3.push("serialised content is not valid JSON".into()),
                    Some(out) => {
                        if out.has_dup_keys_deep() {
                            t3.push(format!("serialised content has duplicate keys: {s1}"));
                        }
                        if expect_ok {
                            compare_trees("", content, &out, false, &mut t3);
                        }
                        // fixpoint on its own output
                        match observe_content(kind, ty, s1) {
                            Some(Ok(c2)) => match &c2.text {
                                Some(s2) if s2 == s1 => {
                                    // nothing the typed value holds is lost or altered by writing it out
                                    if c2.debug != c.debug {
                                        t3.push(format!("serialising loses or alters data: re-read value differs from the first ({s1})"));
                                    }
                                }
                                Some(s2) => t3.push(format!("not a fixpoint: {s1} -> {s2}")),
                                None => t3.push("re-deserialised content no longer serialises".into()),
                            },
                            _ => t3.push(format!("own output was rejected: {s1}")),
                        }
                        // key order independence
                        if !content.has_dup_keys_deep() {
                            let mut rng = req_rng(req);
                            let mut p = content.clone();
                            shuffle_deep(&mut rng, &mut p);
                            match observe_content(kind, ty, &jt::to_text(&p)) {
                                Some(Ok(c3)) if c3.text.as_deref() == Some(s1.as_str()) || MAP_SHAPED.contains(&ty) && c3.text.is_some() => {
                                    // arrays are order-carrying; shuffle_deep leaves arrays in place, so equality is expected
                                    if c3.text.as_deref() != Some(s1.as_str()) {
                                        t3.push("serialised content depends on input key order".into());
                                    }
                                }
                                Some(Ok(_)) => t3.push("serialised content depends on input key order".into()),
                                _ => t3.push("permuted content was rejected".into()),
                            }
                            // unknown extra field in content
                            if expect_ok && !MAP_SHAPED.contains(&ty) {
                                if let J::Obj(es) = content {
                                    let mut es = es.clone();
                                    let pos = rng.below(es.len() + 1);
                                    es.insert(pos, ("zz.oracle.extra".to_owned(), extra_value(&mut rng)));
                                    match observe_content(kind, ty, &jt::to_text(&J::Obj(es))) {
                                        Some(Ok(c4)) => {
                                            let same = match c4.text.as_deref().and_then(jt::parse_text) {
                                                Some(mut o4) => {
                                                    o4.remove("zz.oracle.extra");
                                                    o4 == out
                                                }
                                                None => false,
                                            };
                                            if !same {
                                                t3.push("an unknown extra field changed the serialised content".into());
                                            }
                                        }
                                        _ => t3.push("an unknown extra field in content caused a rejection".into()),
                                    }
                                }
                            }
                        }
                    }
                }
            } else if c.variant != "custom" {
                t3.push(format!("content of known type {ty} does not serialise"));
            }
            format!("ok {} {}", c.variant, stok(&c.event_type))
        }
    };
    Outcome { imp, t3 }
}

fn run_getfield(text: &str, field: &str, tree: &J) -> Outcome {
    // the request carries text and tree; they must denote the same thing (generator's claim)
    match jt::parse_text(text) {
        Some(p) if p == *tree => {}
        _ => return Outcome::bad(),
    }
    let Ok(raw) = Raw::<()>::from_json_string(text.to_owned()) else { return Outcome::bad() };
    let mut t3 = Vec::new();
    let got = raw.get_field::<Box<RawValue>>(field);
    let via_value = raw.get_field::<serde_json::Value>(field);
    let full: serde_json::Value = serde_json::from_str(text).expect("valid JSON");
    let imp = match got {
        Err(_) => {
            if full.is_object() {
                t3.push("get_field failed on an object".into());
            }
            "err".to_owned()
        }
        Ok(None) => {
            if full.get(field).is_some() {
                t3.push("get_field = None but a full parse finds the field".into());
            }
            if !matches!(via_value, Ok(None)) {
                t3.push("get_field::<Value> disagrees with get_field::<RawValue>".into());
            }
            "none".to_owned()
        }
        Ok(Some(v)) => {
            if !text.contains(v.get()) {
                t3.push("returned raw value is not a slice of the text".into());
            }
            match (&via_value, full.get(field)) {
                (Ok(Some(a)), Some(b)) if a == b => {}
                _ => t3.push(format!("get_field disagrees with a full serde_json::Value parse on {field:?}")),
            }
            match jt::parse_text(v.get()) {
                Some(j) => {
                    // the harness' own reading of "full parse": maps, a later duplicate replaces
                    if tree.normalized().get(field) != Some(&j.normalized()) {
                        t3.push("get_field is not the entry a map-building parse keeps".into());
                    }
                    format!("some {}", jt::toks(&j))
                }
                None => "err".to_owned(),
            }
        }
    };
    Outcome { imp, t3 }
}

fn run_raw(text: &str) -> Outcome {
    let mut t3 = Vec::new();
    let a = Raw::<()>::from_json_string(text.to_owned());
    let b = serde_json::from_str::<Raw<AnyTimelineEvent>>(text);
    let imp = match (&a, &b) {
        (Ok(ra), Ok(rb)) => {
            let held = ra.json().get();
            if rb.json().get() != held {
                t3.push("from_json_string and Deserialize hold different text".into());
            }
            if !text.contains(held) || held.trim_matches(|c| matches!(c, ' ' | '\n' | '\r' | '\t')) != held {
                t3.push("held text is not the value's text".into());
            }
            let cl = ra.clone();
            if cl.json().get() != held || cl.cast::<u8>().into_json().get() != held {
                t3.push("clone/cast/into_json changed the text".into());
            }
            match serde_json::to_string(ra) {
                Ok(ser) if ser == held => {}
                _ => t3.push("Serialize of Raw is not its text".into()),
            }
            // nested: a Raw inside a container holds exactly its element's text
            if let Ok(v) = serde_json::from_str::<Vec<Raw<()>>>(&format!("[ {text} ,{text}]")) {
                if v.len() != 2 || v[0].json().get() != held || v[1].json().get() != held {
                    t3.push("Raw nested in an array holds different text".into());
                }
            } else {
                t3.push("Raw nested in an array failed".into());
            }
            format!("ok {}", stok(held))
        }
        (Err(_), Err(_)) => "err".to_owned(),
        _ => {
            t3.push("from_json_string and Deserialize disagree on acceptance".into());
            "err".to_owned()
        }
    };
    Outcome { imp, t3 }
}

// ------------------------------------------------------------------------------------------
// Cells (T1)
// ------------------------------------------------------------------------------------------

/// Probe universe; must be the same list as `Spec.EventTypes.probeTypes` (the theorem
/// `dispatch_table_eq_spec` compares the generated cells, keys included).
fn probe_types(schemas: &[TypeSchema]) -> Vec<String> {
    let mut v: Vec<String> = Vec::new();
    let mut push = |t: &str| {
        if !v.iter().any(|x| x == t) {
            v.push(t.to_owned());
        }
    };
    // the specification's lists in the order of Spec/EventTypes.lean (kinds: global account data,
    // room account data, ephemeral, message-like, state, to-device)
    for t in SPEC_ORDER {
        push(t);
    }
    for t in schemas {
        assert!(SPEC_ORDER.contains(&t.ty), "schema type {} missing from SPEC_ORDER", t.ty);
    }
    for t in [
        "m.secret_storage.key.abc", "m.secret_storage.key.", "m.secret_storage.key",
        "m.secret_storage.key.a.b_c", "m.secret_storage.default_key.x", "m.secret_storage.keys",
        "m.room.messag", "m.room.message2", "m.room.message.", "M.ROOM.MESSAGE", "m.room", "m.",
        "", "*", "m.room.*", "room.message", " m.room.message", "m.room.message ",
        "org.example.custom", "org.matrix.call.sdp_stream_metadata_changed.x", "m.call",
        "org.matrix.msc1767.message", "m.message", "m.poll.start", "m.poll.response", "m.poll.end",
        "m.room_key.withheld", "m.presence", "m.room.message.feedback", "m.location", "m.beacon_info",
        "im.ponies.room_emotes", "com.famedly.marked_unread", "m.call.member", "m.call.notify",
        "m.key.verification.requests", "io.element.functional_members",
    ] {
        push(t);
    }
    v
}

const SPEC_ORDER: &[&str] = &[
    "m.direct", "m.identity_server", "m.ignored_user_list", "m.push_rules", "m.secret_storage.default_key", "m.secret_storage.key.*",
    "m.fully_read", "m.tag", "m.marked_unread",
    "m.receipt", "m.typing",
    "m.call.answer", "m.call.invite", "m.call.hangup", "m.call.candidates", "m.call.negotiate", "m.call.reject",
    "m.call.sdp_stream_metadata_changed", "org.matrix.call.sdp_stream_metadata_changed", "m.call.select_answer",
    "m.key.verification.ready", "m.key.verification.start", "m.key.verification.cancel", "m.key.verification.accept",
    "m.key.verification.key", "m.key.verification.mac", "m.key.verification.done",
    "m.reaction", "m.room.encrypted", "m.room.message", "m.room.redaction", "m.sticker",
    "m.policy.rule.room", "m.policy.rule.server", "m.policy.rule.user", "m.room.aliases", "m.room.avatar", "m.room.canonical_alias",
    "m.room.create", "m.room.encryption", "m.room.guest_access", "m.room.history_visibility", "m.room.join_rules", "m.room.member",
    "m.room.name", "m.room.pinned_events", "m.room.power_levels", "m.room.server_acl", "m.room.third_party_invite",
    "m.room.tombstone", "m.room.topic", "m.space.child", "m.space.parent",
    "m.dummy", "m.room_key", "m.room_key_request", "m.forwarded_room_key", "m.key.verification.request", "m.secret.request", "m.secret.send",
];

fn cell_event(schemas: &[TypeSchema], e: &str, ty: &str, sk: bool, red: bool) -> Option<J> {
    let mut rng = Rng::new(18);
    build_event(&mut rng, schemas, e, ty, sk, if red { Some(11) } else { None }, Mode::Min).map(|b| b.ev)
}

fn cell_keys(schemas: &[TypeSchema]) -> Vec<(String, String, bool, bool)> {
    let mut v = Vec::new();
    for e in ENUMS {
        let sks: Vec<bool> = if is_timeline(e) { vec![false, true] } else { vec![enum_kind(e) == "state"] };
        let forms: Vec<bool> = if maybe_redacted(e) { vec![false, true] } else { vec![false] };
        for t in probe_types(schemas) {
            for sk in &sks {
                for red in &forms {
                    v.push(((*e).to_owned(), t.clone(), *sk, *red));
                }
            }
        }
    }
    v
}

fn run_cell(schemas: &[TypeSchema], e: &str, ty: &str, sk: bool, red: bool) -> Outcome {
    let Some(ev) = cell_event(schemas, e, ty, sk, red) else {
        return Outcome { imp: "err".into(), t3: vec!["could not build the redacted form".into()] };
    };
    match observe(e, &jt::to_text(&ev)) {
        None => Outcome::bad(),
        Some(Err(())) => Outcome { imp: "err".into(), t3: vec![format!("{e} rejected the minimal spec-shaped {ty} event: {}", jt::to_text(&ev))] },
        Some(Ok(d)) => Outcome::new(sel_line(e, &d)),
    }
}

fn lean_str(x: &str) -> String {
    format!("{:?}", x.as_bytes().iter().map(|b| u32::from(*b)).collect::<Vec<_>>())
}

fn lean_enum(e: &str) -> String {
    let mut c = e.chars();
    let first = c.next().unwrap().to_ascii_lowercase();
    let name: String = std::iter::once(first).chain(c).collect();
    format!(".{}", name.strip_suffix("Event").unwrap())
}

/// T1: every cell of the probe universe evaluated on the running code, as a Lean table.
fn extract() -> String {
    let schemas = all_schemas();
    let mut out = String::new();
    out.push_str("-- GENERATED by `h-c18 c18 extract` from the running implementation. Do not edit.\n");
    out.push_str("import RumaModel.Spec.EventTypes\nimport RumaModel.Model.ContentSchemaLeaves\nnamespace Ruma.Generated.C18\nopen Ruma.EventDispatch Ruma.Spec.EventTypes\n\n");
    out.push_str("/-- (enum, type, withStateKey, redactedForm, what the real `Deserialize` selected); strings as UTF-8 bytes. -/\n");
    let keys = cell_keys(&schemas);
    let mut not_covered = Vec::new();
    let mut rows = Vec::new();
    for (e, t, sk, red) in keys.iter() {
        let o = h_util::guarded(|| run_cell(&schemas, e, t, *sk, *red)).unwrap_or(Outcome::new("panic"));
        let res = match o.imp.strip_prefix("ok ") {
            Some(rest) => {
                let p: Vec<&str> = rest.split(' ').collect();
                let variant = if p[1] == "custom" { "none".to_owned() } else { format!("(some {})", lean_str(p[1])) };
                let rt = jt::str_tok(p[3]).unwrap();
                format!("(some (Sel.mk .{} {} {} {}))", p[0], variant, p[2] == "red", lean_str(&rt))
            }
            None => {
                not_covered.push(format!("{e} {t:?} sk={sk} red={red}"));
                "none".to_owned()
            }
        };
        rows.push(format!("  Cell.mk {} {} {} {} {}", lean_enum(e), lean_str(t), sk, red, res));
    }
    // chunks keep each definition small enough to elaborate quickly
    let chunks: Vec<&[String]> = rows.chunks(64).collect();
    for (n, c) in chunks.iter().enumerate() {
        out.push_str(&format!("def observed{n} : List Cell := [\n{}\n]\n\n", c.join(",\n")));
    }
    out.push_str("def observed : List Cell :=\n  List.flatten [");
    out.push_str(&(0..chunks.len()).map(|n| format!("observed{n}")).collect::<Vec<_>>().join(", "));
    out.push_str("]\n\n");
    out.push_str(&format!("/-- Cells on which the real code rejected the minimal event ({}). -/\n", not_covered.len()));
    out.push_str(&format!("def rejectedCells : Nat := {}\n", not_covered.len()));
    for c in &not_covered {
        out.push_str(&format!("-- rejected: {c}\n"));
    }
    // the per-field facts of the content types under the schema model (T1 of `c18.schema`): shape from
    // the specification's schema, facts from probing the running code; carried in-line by every
    // `c18.schema` request, listed here so that a change shows up in this file
    let ex = model::extract_all(&schemas);
    out.push_str(&format!("\n/-- Content types under the schema model ({}): `kind:type`, schema tokens with the extracted facts. -/\n", ex.modelled.len()));
    out.push_str("def schemaFacts : List (String × String) := [\n");
    out.push_str(&ex.modelled.iter().map(|t| format!("  ({:?}, {:?})", format!("{}:{}", t.kind, t.ty), t.toks)).collect::<Vec<_>>().join(",\n"));
    out.push_str("\n]\n\n");
    // the same schemas as closed Lean terms: `Props/C18.lean` proves `WF` of every one of them
    // (`generated_schemas_wf`) and the driver answers `c18.schema` requests from THESE terms, after
    // checking that the tokens carried by the request print the same schema
    out.push_str("section\nopen Ruma.ContentSchema\n\n");
    for (n, t) in ex.modelled.iter().enumerate() {
        out.push_str(&format!("/-- `{}:{}` -/\ndef desc{n} : Desc :=\n  {}\n\n", t.kind, t.ty, t.m.lean()));
    }
    out.push_str("/-- `kind:type` (UTF-8 bytes) and the description of the content type's schema. -/\ndef descs : List (Ruma.Str × Desc) := [\n");
    out.push_str(
        &ex.modelled
            .iter()
            .enumerate()
            .map(|(n, t)| format!("  ({}, desc{n})", model::lean_bytes(&format!("{}:{}", t.kind, t.ty))))
            .collect::<Vec<_>>()
            .join(",\n"),
    );
    out.push_str("\n]\n\n/-- The modelled schemas: the meaning of each description. -/\ndef schemas : List (Ruma.Str × Schema) := descs.map (fun p => (p.1, p.2.toSchema))\n\nend\n\n");
    out.push_str(&format!("def schemaModelled : Nat := {}\ndef schemaT3Only : Nat := {}\n", ex.modelled.len(), ex.t3_only.len()));
    for (k, t, why) in &ex.t3_only {
        out.push_str(&format!("-- T3-only: {k}:{t}: {why}\n"));
    }
    for n in &ex.notes {
        out.push_str(&format!("-- note: {n}\n"));
    }
    out.push_str("\nend Ruma.Generated.C18\n");
    out
}

// ------------------------------------------------------------------------------------------
// Generators
// ------------------------------------------------------------------------------------------

fn pick_mode(rng: &mut Rng) -> Mode {
    match rng.below(4) {
        0 => Mode::Min,
        1 => Mode::Max,
        _ => Mode::Rand,
    }
}

const CUSTOM_TYPES: &[&str] = &[
    "org.example.custom", "m.room.messag", "m.room.message2", "", "m.secret_storage.key", "com.example.é", "m.poll.start", "m.room_key.withheld",
    "M.ROOM.MESSAGE", "m.secret_storage.key.abc", "m.secret_storage.key.", "m.secret_storage.key.x.y", "org.matrix.call.sdp_stream_metadata_changed",
];

fn gen_dispatch(rng: &mut Rng, schemas: &[TypeSchema]) -> Req {
    let e = *rng.pick(ENUMS);
    let with_sk = if is_timeline(e) { rng.chance(1, 2) } else { enum_kind(e) == "state" };
    let kind = if is_timeline(e) { if with_sk { "state" } else { "messageLike" } } else { enum_kind(e) };
    // mostly a type of the enum's kind, sometimes of another kind or a custom one
    let ty: String = match rng.below(10) {
        0 => (*rng.pick(CUSTOM_TYPES)).to_owned(),
        1 => rng.pick(schemas).ty.to_owned(),
        _ => {
            let of_kind: Vec<&TypeSchema> = schemas.iter().filter(|t| t.kind == kind).collect();
            rng.pick(&of_kind).ty.to_owned()
        }
    };
    let ty = if ty.ends_with(".*") { format!("{}{}", &ty[..ty.len() - 1], rng.pick(&["abc", "", "a.b", "é"])) } else { ty };
    let ty = if ty == "m.call.sdp_stream_metadata_changed" && rng.chance(1, 2) { "org.matrix.call.sdp_stream_metadata_changed".to_owned() } else { ty };
    let redacted = if maybe_redacted(e) && rng.chance(2, 5) { Some(*rng.pick(&[1u32, 3, 6, 8, 9, 10, 11])) } else { None };
    let mode = pick_mode(rng);
    let Some(b) = build_event(rng, schemas, e, &ty, with_sk, redacted, mode) else {
        return Req::new(format!("c18.raw {}", stok("{}")), "raw");
    };
    let mut ev = b.ev;
    if rng.chance(1, 2) {
        add_extras(rng, &mut ev, &ty);
    }
    if rng.chance(2, 3) {
        shuffle_deep(rng, &mut ev);
    }
    let cls = format!("dispatch.{}{}", if redacted.is_some() { "redacted." } else { "" }, kind);
    Req::new(format!("c18.dispatch {e} ok {}", jt::toks(&ev)), cls)
}

/// State keys whose JSON text needs escapes (quote, backslash, control characters): the timeline enums
/// look for `state_key` in the raw text before handing the same text to the state enum.
const ESC_STATE_KEYS: &[&str] = &[
    "q\"uote", "back\\slash", "line\nbreak", "tab\there", "\u{1}ctl", "rule:\"*\"", "\\", "\"", "\u{8}\u{c}\r", "é\"日本\\", "\u{7f}\u{0}", "a/b\\/c", "\\u0041", "\\\"",
];
/// State event types whose state key is a free-form string.
const FREE_STATE_KEY_TYPES: &[&str] = &["m.policy.rule.room", "m.policy.rule.server", "m.policy.rule.user", "m.room.third_party_invite", "org.example.custom", "com.example.é", "m.room.message2"];

/// A valid state event whose `state_key` needs JSON escapes, through every enum that reads state events.
fn gen_escaped_state_key(rng: &mut Rng, schemas: &[TypeSchema]) -> Req {
    let e = *rng.pick(&["AnyTimelineEvent", "AnySyncTimelineEvent", "AnyTimelineEvent", "AnySyncTimelineEvent", "AnyStateEvent", "AnySyncStateEvent", "AnyStrippedStateEvent", "AnyInitialStateEvent"]);
    let ty = *rng.pick(FREE_STATE_KEY_TYPES);
    let redacted = if maybe_redacted(e) && rng.chance(1, 4) { Some(*rng.pick(&[1u32, 6, 9, 11])) } else { None };
    let mode = pick_mode(rng);
    let Some(b) = build_event(rng, schemas, e, ty, true, redacted, mode) else {
        return Req::new(format!("c18.raw {}", stok("{}")), "raw");
    };
    let mut ev = b.ev;
    ev.set("state_key", s(rng.pick(ESC_STATE_KEYS)));
    if rng.chance(1, 3) {
        add_extras(rng, &mut ev, ty);
    }
    if rng.chance(2, 3) {
        shuffle_deep(rng, &mut ev);
    }
    Req::new(format!("c18.dispatch {e} ok {}", jt::toks(&ev)), "dispatch.escaped-state-key")
}

/// Envelope-level malformations whose outcome the dispatch stage alone decides.
fn gen_malformed(rng: &mut Rng, schemas: &[TypeSchema]) -> Req {
    let e = *rng.pick(ENUMS);
    let with_sk = if is_timeline(e) { rng.chance(1, 2) } else { enum_kind(e) == "state" };
    let kind = if is_timeline(e) { if with_sk { "state" } else { "messageLike" } } else { enum_kind(e) };
    let of_kind: Vec<&TypeSchema> = schemas.iter().filter(|t| t.kind == kind && !t.ty.ends_with(".*")).collect();
    let ty = rng.pick(&of_kind).ty.to_owned();
    let red = if maybe_redacted(e) && rng.chance(1, 2) { Some(11) } else { None };
    let Some(b) = build_event(rng, schemas, e, &ty, with_sk, red, Mode::Rand) else {
        return Req::new(format!("c18.raw {}", stok("[]")), "raw");
    };
    let mut ev = b.ev;
    let es = ev.entries_mut().unwrap();
    let mut flag = "any";
    let what;
    match rng.below(9) {
        0 => {
            what = "dup-type";
            let other = (*rng.pick(&["m.room.message", "m.room.name", "x.y"])).to_owned();
            let pos = rng.below(es.len() + 1);
            es.insert(pos, ("type".to_owned(), s(&other)));
        }
        1 => {
            what = "no-type";
            es.retain(|(k, _)| k != "type");
        }
        2 => {
            what = "type-not-string";
            let v = match rng.below(4) {
                0 => J::Null,
                1 => i(5),
                2 => arr(vec![s(&ty)]),
                _ => obj(vec![("type", s(&ty))]),
            };
            for (k, x) in es.iter_mut() {
                if k == "type" {
                    *x = v.clone();
                }
            }
        }
        3 if is_timeline(e) => {
            what = "dup-state_key";
            let pos = rng.below(es.len() + 1);
            es.insert(pos, ("state_key".to_owned(), s("")));
            if !with_sk {
                let pos = rng.below(es.len() + 1);
                es.insert(pos, ("state_key".to_owned(), J::Null));
            }
        }
        4 if maybe_redacted(e) => {
            what = "dup-unsigned";
            es.retain(|(k, _)| k != "unsigned");
            let pos = rng.below(es.len() + 1);
            es.insert(pos, ("unsigned".to_owned(), J::Obj(vec![])));
            let pos = rng.below(es.len() + 1);
            es.insert(pos, ("unsigned".to_owned(), obj(vec![("age", i(1))])));
        }
        5 if maybe_redacted(e) => {
            what = "unsigned-scalar";
            es.retain(|(k, _)| k != "unsigned");
            let pos = rng.below(es.len() + 1);
            es.insert(pos, ("unsigned".to_owned(), rng.pick(&[i(5), s("x"), J::Bool(true), arr(vec![]), arr(vec![i(1), i(2)])]).clone()));
        }
        6 if maybe_redacted(e) && red.is_some() => {
            what = "dup-redacted_because";
            for (k, x) in es.iter_mut() {
                if k == "unsigned" {
                    if let J::Obj(u) = x {
                        let pos = rng.below(u.len() + 1);
                        u.insert(pos, ("redacted_because".to_owned(), J::Null));
                    }
                }
            }
        }
        7 if is_timeline(e) && !with_sk => {
            // a null state_key is no state key: still a message-like event
            what = "null-state_key";
            flag = "ok";
            let pos = rng.below(es.len() + 1);
            es.insert(pos, ("state_key".to_owned(), J::Null));
        }
        8 if maybe_redacted(e) && red.is_none() => {
            // a null redacted_because is no redaction
            what = "null-redacted_because";
            flag = "ok";
            let mut found = false;
            for (k, x) in es.iter_mut() {
                if k == "unsigned" {
                    if let J::Obj(u) = x {
                        u.push(("redacted_because".to_owned(), J::Null));
                        found = true;
                    }
                }
            }
            if !found {
                es.push(("unsigned".to_owned(), obj(vec![("redacted_because", J::Null)])));
            }
        }
        _ => {
            what = "unknown-dups";
            flag = "ok";
            // duplicated UNKNOWN keys are harmless
            let pos = rng.below(es.len() + 1);
            es.insert(pos, ("zz.extra".to_owned(), i(1)));
            let pos = rng.below(es.len() + 1);
            es.insert(pos, ("zz.extra".to_owned(), s("two")));
        }
    }
    Req::new(format!("c18.dispatch {e} {flag} {}", jt::toks(&ev)), format!("malformed.{what}"))
}

/// Content types whose (de)serialisation is hand-written (no schema model: the T3 oracles are all there is).
const T3_ONLY_TYPES: &[(&str, &str)] = &[
    ("state", "m.room.join_rules"),
    ("messageLike", "m.room.message"),
    ("messageLike", "m.sticker"),
    ("messageLike", "m.room.encrypted"),
    ("messageLike", "m.key.verification.start"),
    ("messageLike", "m.key.verification.accept"),
    ("globalAccountData", "m.push_rules"),
    ("globalAccountData", "m.secret_storage.key.*"),
    ("toDevice", "m.key.verification.start"),
    ("toDevice", "m.key.verification.accept"),
    ("toDevice", "m.room.encrypted"),
    ("toDevice", "m.secret.request"),
];

/// `m.room.message` with a msgtype the code does not know: every combination of `m.mentions`
/// (absent / users / room / both / empty) with `m.relates_to` (absent / reply / thread / reference /
/// custom relation) and further unknown fields, which the custom msgtype keeps.
fn gen_custom_msgtype(rng: &mut Rng) -> Req {
    let mut es: Vec<(String, J)> = vec![
        ("msgtype".into(), s(rng.pick(&["org.example.custom_msgtype", "com.example.x", "m.custom", "m.tex"]))),
        ("body".into(), s(rng.pick(&["a", "", "hello world", "q\"uo\\te"]))),
    ];
    if rng.chance(1, 2) {
        es.push(("custom_field".into(), extra_value(rng)));
    }
    if rng.chance(1, 3) {
        es.push(("n".into(), i(rng.range(-3, 100))));
    }
    match rng.below(6) {
        0 => {}
        1 => es.push(("m.mentions".into(), obj(vec![("user_ids", arr(vec![s("@alice:example.org")]))]))),
        2 => es.push(("m.mentions".into(), obj(vec![("room", J::Bool(true))]))),
        3 => es.push(("m.mentions".into(), obj(vec![("user_ids", arr(vec![s("@bob:matrix.org"), s("@alice:example.org")])), ("room", J::Bool(true))]))),
        4 => es.push(("m.mentions".into(), obj(vec![("user_ids", arr(vec![]))]))),
        _ => es.push(("m.mentions".into(), obj(vec![]))),
    }
    // two of three without a relation: the case no other generator reaches often
    match rng.below(12) {
        0 => es.push(("m.relates_to".into(), obj(vec![("m.in_reply_to", obj(vec![("event_id", s("$ev1:example.org"))]))]))),
        1 => es.push(("m.relates_to".into(), obj(vec![("rel_type", s("m.thread")), ("event_id", s("$ev1:example.org"))]))),
        2 => es.push(("m.relates_to".into(), obj(vec![("rel_type", s("m.reference")), ("event_id", s("$ev1:example.org"))]))),
        3 => es.push(("m.relates_to".into(), obj(vec![("rel_type", s("org.example.custom_rel")), ("event_id", s("$ev1:example.org")), ("extra", i(1))]))),
        _ => {}
    }
    let mut c = J::Obj(es);
    if rng.chance(1, 2) {
        shuffle_deep(rng, &mut c);
    }
    Req::new(format!("c18.content messageLike ok {} {}", stok("m.room.message"), jt::toks(&c)), "content.custom-msgtype")
}

/// `m.room.join_rules` with an allow list (`restricted`, `knock_restricted`).
fn gen_join_rules_allow(rng: &mut Rng, schemas: &[TypeSchema]) -> Option<Req> {
    let t = schema_for(schemas, "state", "m.room.join_rules")?;
    for _ in 0..16 {
        let mode = pick_mode(rng);
        let mut c = schema::gen(rng, &t.content, mode);
        if matches!(c.get("join_rule").and_then(J::as_str), Some("restricted" | "knock_restricted")) {
            if rng.chance(1, 2) {
                c.set("join_rule", s("knock_restricted"));
            }
            if rng.chance(1, 2) {
                shuffle_deep(rng, &mut c);
            }
            return Some(Req::new(format!("c18.content state ok {} {}", stok("m.room.join_rules"), jt::toks(&c)), "content.join-rules-allow"));
        }
    }
    None
}

/// `m.room.encrypted` content whose `m.relates_to` carries a `rel_type` TOGETHER WITH an `m.in_reply_to`
/// (a reference / replacement / thread / annotation sent as a reply): the relation is selected by its
/// `rel_type`, and `rel_type` / `event_id` come back unchanged.
fn gen_encrypted_relation(rng: &mut Rng) -> Req {
    // (the specification's relation types only: a custom `rel_type` next to an `m.in_reply_to` is read as a
    // plain reply by design of the type and is outside the spec-shaped quantifier)
    let rel = *rng.pick(&["m.reference", "m.replace", "m.thread", "m.annotation"]);
    let mut r: Vec<(&str, J)> = vec![("rel_type", s(rel)), ("event_id", s(*rng.pick(&["$ev1:example.org", "$Rqnc-F-dvnEYJTyHq_iKxU2bZ1CI92-kuZq3a5lr5Zg"])))];
    if rel == "m.annotation" {
        r.push(("key", s("👍")));
    }
    if rng.chance(2, 3) {
        r.push(("m.in_reply_to", obj(vec![("event_id", s("$reply:example.org"))])));
    }
    if rel == "m.thread" && rng.chance(1, 2) {
        r.push(("is_falling_back", J::Bool(true)));
    }
    let mut c = obj(vec![
        ("algorithm", s("m.megolm.v1.aes-sha2")),
        ("ciphertext", s("AwgAEnACgAkLmt6qF84IK++J7UDH2Za1YVchHyprqTqsg")),
        ("device_id", s("RJYKSTBOIE")),
        ("sender_key", s("IlRMeOPX2e0MurIyfWEucYBRVOEEUMrOHqn/8mLqMjA")),
        ("session_id", s("X3lUlvLELLYxeTx4yOVu6UDpasGEVO0Jbu+QFnm0cKQ")),
        ("m.relates_to", obj(r)),
    ]);
    if rng.chance(1, 2) {
        shuffle_deep(rng, &mut c);
    }
    Req::new(format!("c18.content messageLike ok {} {}", stok("m.room.encrypted"), jt::toks(&c)), "content.encrypted-relation")
}

fn gen_content(rng: &mut Rng, schemas: &[TypeSchema]) -> Req {
    match rng.below(16) {
        0 => return gen_custom_msgtype(rng),
        2 => return gen_encrypted_relation(rng),
        1 => {
            if let Some(r) = gen_join_rules_allow(rng, schemas) {
                return r;
            }
        }
        _ => {}
    }
    if rng.chance(1, 12) {
        // custom / foreign type: goes to `_Custom`, content is not looked at
        let kind = *rng.pick(KINDS);
        let ty = *rng.pick(CUSTOM_TYPES);
        if schema_for(schemas, kind, ty).is_none() {
            let c = obj(vec![("anything", extra_value(rng))]);
            return Req::new(format!("c18.content {kind} ok {} {}", stok(ty), jt::toks(&c)), "content.custom");
        }
    }
    // one request in five on a type with hand-written (de)serialisation
    let hand: Vec<&TypeSchema> = schemas.iter().filter(|t| T3_ONLY_TYPES.contains(&(t.kind, t.ty))).collect();
    let t = if !hand.is_empty() && rng.chance(1, 5) { *rng.pick(&hand) } else { rng.pick(schemas) };
    let mode = pick_mode(rng);
    let mut c = schema::gen(rng, &t.content, mode);
    if !t.map_shaped && rng.chance(1, 3) {
        if let Some(es) = c.entries_mut() {
            let pos = rng.below(es.len() + 1);
            es.insert(pos, ((*rng.pick(EXTRA_KEYS)).to_owned(), extra_value(rng)));
        }
    }
    if rng.chance(1, 2) {
        shuffle_deep(rng, &mut c);
    }
    let ty = if t.ty.ends_with(".*") { format!("{}{}", &t.ty[..t.ty.len() - 1], rng.pick(&["abc", "", "a.b"])) } else { t.ty.to_owned() };
    Req::new(format!("c18.content {} ok {} {}", t.kind, stok(&ty), jt::toks(&c)), format!("content.{}", t.kind))
}

fn gen_json(rng: &mut Rng, depth: u32) -> J {
    let k = if depth == 0 { rng.below(5) } else { rng.below(7) };
    match k {
        0 => J::Null,
        1 => J::Bool(rng.chance(1, 2)),
        2 => i(*rng.pick(&[0, -1, 7, 9007199254740991, i64::MAX, i64::MIN])),
        3 => s(rng.pick(&["", "a", "type", "é", "\"q\"", "b\\s", "\u{0}", "\u{1F600}", "a b"])),
        4 => J::Float(0.5),
        5 => arr((0..rng.below(4)).map(|_| gen_json(rng, depth - 1)).collect()),
        _ => gen_obj(rng, depth - 1),
    }
}

const FIELD_KEYS: &[&str] = &["type", "a", "b", "content", "", "é", "ty\"pe", "a\\b", "\u{0}", "Type", "unsigned", "\u{1F600}", "a b", "/"];

/// Objects with duplicate keys on purpose.
fn gen_obj(rng: &mut Rng, depth: u32) -> J {
    let n = rng.below(7);
    J::Obj((0..n).map(|_| ((*rng.pick(FIELD_KEYS)).to_owned(), gen_json(rng, depth))).collect())
}

fn gen_getfield(rng: &mut Rng) -> Req {
    let tree = if rng.chance(1, 12) { gen_json(rng, 1) } else { gen_obj(rng, 2) };
    let mut text = String::new();
    if rng.chance(1, 2) {
        jt::write_text_noisy(rng, &tree, &mut text);
    } else {
        jt::write_text(&tree, &mut text);
    }
    let field = if rng.chance(4, 5) && !tree.entries().is_empty() { rng.pick(tree.entries()).0.clone() } else { (*rng.pick(FIELD_KEYS)).to_owned() };
    let dup = tree.entries().iter().filter(|(k, _)| *k == field).count();
    let cls = match (&tree, dup) {
        (J::Obj(_), 0) => "getfield.absent",
        (J::Obj(_), 1) => "getfield.once",
        (J::Obj(_), _) => "getfield.duplicate",
        _ => "getfield.nonobject",
    };
    Req::new(format!("c18.getfield {} {} {}", stok(&text), stok(&field), jt::toks(&tree)), cls)
}

fn gen_raw(rng: &mut Rng, schemas: &[TypeSchema]) -> Req {
    let tree = if rng.chance(1, 2) {
        gen_json(rng, 2)
    } else {
        let e = *rng.pick(ENUMS);
        let t = rng.pick(schemas);
        build_event(rng, schemas, e, t.ty, true, None, Mode::Rand).map(|b| b.ev).unwrap_or(J::Null)
    };
    let mut text = String::new();
    let pad = |rng: &mut Rng, text: &mut String| {
        for _ in 0..rng.below(3) {
            text.push(*rng.pick(&[' ', '\n', '\t', '\r']));
        }
    };
    if rng.chance(1, 2) {
        pad(rng, &mut text);
    }
    if rng.chance(1, 2) {
        jt::write_text_noisy(rng, &tree, &mut text);
    } else {
        jt::write_text(&tree, &mut text);
    }
    if rng.chance(1, 2) {
        pad(rng, &mut text);
    }
    Req::new(format!("c18.raw {}", stok(&text)), "raw")
}

fn gen(rng: &mut Rng, n: usize, _tier: &str) -> Vec<Req> {
    let schemas = all_schemas();
    let mut reqs = Vec::new();
    for (e, t, sk, red) in cell_keys(&schemas) {
        reqs.push(Req::new(format!("c18.cell {e} {} {} {}", stok(&t), if sk { "sk" } else { "nosk" }, if red { "red" } else { "orig" }), "cell"));
    }
    for _ in 0..n {
        reqs.push(match rng.below(20) {
            0 if rng.chance(1, 2) => gen_escaped_state_key(rng, &schemas),
            0..=7 => gen_dispatch(rng, &schemas),
            8..=9 => gen_malformed(rng, &schemas),
            10..=15 => gen_content(rng, &schemas),
            16..=18 => gen_getfield(rng),
            _ => gen_raw(rng, &schemas),
        });
    }
    // the schema model of the per-type code: facts re-extracted from the running code now
    let ex = model::extract_all(&schemas);
    for w in model::witness_reqs(&ex) {
        reqs.push(Req::new(w, "schema.witness"));
    }
    // (the request lines carry the schema: capped so that the thorough tier stays within its budget)
    // (own generator state: `Rng::new(seed)` streams of nearby seeds are shifted copies of each other)
    let mut srng = Rng::new(rng.next() ^ 0x5c18_5c18_5c18_5c18);
    for _ in 0..n.min(100_000) {
        reqs.push(model::gen_schema_req(&mut srng, &ex));
    }
    reqs
}

// ------------------------------------------------------------------------------------------

fn run(req: &str) -> Outcome {
    let toks: Vec<&str> = req.split(' ').collect();
    match toks[0] {
        "c18.cell" if toks.len() == 5 => {
            let Some(ty) = jt::str_tok(toks[2]) else { return Outcome::bad() };
            let sk = match toks[3] {
                "sk" => true,
                "nosk" => false,
                _ => return Outcome::bad(),
            };
            let red = match toks[4] {
                "red" => true,
                "orig" => false,
                _ => return Outcome::bad(),
            };
            if !ENUMS.contains(&toks[1]) {
                return Outcome::bad();
            }
            run_cell(&all_schemas(), toks[1], &ty, sk, red)
        }
        "c18.dispatch" if toks.len() >= 4 => {
            let expect_ok = match toks[2] {
                "ok" => true,
                "any" => false,
                _ => return Outcome::bad(),
            };
            let mut it = toks[3..].iter();
            match (jt::parse_toks(&mut it), it.next()) {
                (Some(ev @ J::Obj(_)), None) => run_dispatch(req, toks[1], expect_ok, &ev),
                _ => Outcome::bad(),
            }
        }
        "c18.content" if toks.len() >= 5 => {
            let expect_ok = match toks[2] {
                "ok" => true,
                "any" => false,
                _ => return Outcome::bad(),
            };
            let Some(ty) = jt::str_tok(toks[3]) else { return Outcome::bad() };
            let mut it = toks[4..].iter();
            match (jt::parse_toks(&mut it), it.next()) {
                (Some(c @ J::Obj(_)), None) => run_content(req, toks[1], expect_ok, &ty, &c),
                _ => Outcome::bad(),
            }
        }
        "c18.getfield" if toks.len() >= 4 => {
            let (Some(text), Some(field)) = (jt::str_tok(toks[1]), jt::str_tok(toks[2])) else { return Outcome::bad() };
            let mut it = toks[3..].iter();
            match (jt::parse_toks(&mut it), it.next()) {
                (Some(tree), None) => run_getfield(&text, &field, &tree),
                _ => Outcome::bad(),
            }
        }
        "c18.schema" if toks.len() >= 5 => {
            if !KINDS.contains(&toks[1]) {
                return Outcome::bad();
            }
            let Some(ty) = jt::str_tok(toks[2]) else { return Outcome::bad() };
            let mut it = toks[3..].iter();
            match (jt::parse_toks(&mut it), it.next()) {
                (Some(c @ J::Obj(_)), Some(head)) => model::run_schema(req, toks[1], &ty, &c, head),
                _ => Outcome::bad(),
            }
        }
        "c18.raw" if toks.len() == 2 => match jt::str_tok(toks[1]) {
            Some(text) => run_raw(&text),
            None => Outcome::bad(),
        },
        _ => Outcome::bad(),
    }
}

fn main() {
    // development aid: `h-c18 c18 probe <Enum|kind:type> <json text>` prints what the real code does
    let a: Vec<String> = std::env::args().collect();
    if a.get(2).map(String::as_str) == Some("probe") {
        let (what, text) = (&a[3], &a[4]);
        if let Some((kind, ty)) = what.split_once(':') {
            match observe_content(kind, ty, text) {
                Some(Ok(c)) => println!("{} {} {:?}", c.variant, c.event_type, c.text),
                other => println!("{:?}", other.map(|r| r.map(|_| ()))),
            }
        } else {
            println!("{:?}", observe(what, text));
            if let Some(j) = jt::parse_text(text) {
                println!("c18.dispatch {what} any {}", jt::toks(&j));
            }
        }
        return;
    }
    if a.get(2).map(String::as_str) == Some("pin") {
        // `h-c18 c18 pin > corpus/C18/schema-pinned.req`: the facts of today's code, frozen in request
        // lines (minimal and maximal spec-shaped content of every modelled type; every field at every depth
        // present / left out in otherwise minimal content). A later change of a
        // fact (a dropped `skip_serializing_if`, another default, …) makes the model under the frozen
        // facts disagree with the implementation on these lines.
        println!("# regenerate with: harness/target/release/h-c18 c18 pin > corpus/C18/schema-pinned.req  (after a deliberate change of schema.rs / the token format)");
        let ex = model::extract_all(&all_schemas());
        for l in model::pin_lines(&ex) {
            println!("{l}");
        }
        return;
    }
    if a.get(2).map(String::as_str) == Some("facts") {
        let ex = model::extract_all(&all_schemas());
        for t in &ex.modelled {
            println!("{}:{} {}", t.kind, t.ty, t.toks);
        }
        for (k, t, why) in &ex.t3_only {
            println!("T3-only {k}:{t}: {why}");
        }
        for n in &ex.notes {
            println!("note: {n}");
        }
        println!("modelled {} t3-only {}", ex.modelled.len(), ex.t3_only.len());
        return;
    }
    h_lib::std_main(Some(&extract), &gen, &run);
}
