//! `c18.schema`: the tie between the Lean model of the serde-derived per-type content code
//! (`Model/ContentSchema.lean`) and the real content types.
//!
//! T1 (every `gen`/`extract` run): for every content type of `schema.rs` whose shape the model's schema
//! language can express, every field at every depth is probed on the REAL code
//! (`Any*EventContent::from_parts` → `serde_json::to_string`): field left out, set to `null`, set to
//! an ill-typed value, set to default-like values, an unknown sibling key added, string leaves set
//! to a string no identifier grammar accepts. From the answers the per-field facts are read
//! (required / written-back default / null-as-absent / lenient / skipped values / serialise-only
//! constant / catch-all / validated leaf or plain string) and encoded, with the shape, as schema
//! tokens. T2: every `c18.schema` request carries those tokens and one input; the Lean driver
//! answers `project schema input`, `run` answers from the real code.
use h_lib::{stok, Outcome, Req, Rng};

use crate::jt::{self, arr, i, obj, s, J};
use crate::schema::{self, Mode, TypeSchema, F, S};

// ------------------------------------------------------------------------------------------
// Model schema
// ------------------------------------------------------------------------------------------

#[derive(Clone, Debug, PartialEq)]
pub enum Leaf {
    Str,
    Int,
    UInt,
    Bool,
    Float,
    IntLax,
    Voip,
    UserId,
    EventId,
    RoomId,
    RoomAlias,
    RoomAliasOrEmpty,
    ServerName,
    KeyId,
    RoomVersion,
    Base64,
    ReceiptThread,
    Const(String),
    Enum(Vec<String>),
}

#[derive(Clone, Debug)]
pub enum M {
    Any,
    Leaf(Leaf),
    Arr(Box<M>),
    Map(Leaf, Box<M>),
    NullOr(Box<M>),
    Obj(Vec<MF>, bool),
}

#[derive(Clone, Debug)]
pub struct MF {
    pub name: String,
    pub m: M,
    pub req: bool,
    pub dflt: Option<J>,
    pub null_absent: bool,
    pub lenient: bool,
    pub ghost: bool,
    pub skips: Vec<J>,
}

impl Leaf {
    fn tok(&self, out: &mut Vec<String>) {
        match self {
            Leaf::Const(c) => {
                out.push("K".into());
                out.push(stok(c));
            }
            Leaf::Enum(xs) => {
                out.push(format!("E{}", xs.len()));
                out.extend(xs.iter().map(|x| stok(x)));
            }
            k => out.push(format!("L{k:?}")),
        }
    }
    /// key types a `BTreeMap` of the model may have
    fn key_tok(&self) -> String {
        match self {
            Leaf::UserId | Leaf::EventId | Leaf::RoomId | Leaf::ServerName | Leaf::KeyId => format!("L{self:?}"),
            _ => "LStr".into(),
        }
    }
}

impl M {
    pub fn tok(&self, out: &mut Vec<String>) {
        match self {
            M::Any => out.push("A".into()),
            M::Leaf(l) => l.tok(out),
            M::Arr(e) => {
                out.push("R".into());
                e.tok(out);
            }
            M::Map(k, v) => {
                out.push("M".into());
                out.push(k.key_tok());
                v.tok(out);
            }
            M::NullOr(x) => {
                out.push("N".into());
                x.tok(out);
            }
            M::Obj(fs, keep) => {
                out.push(format!("O{}", fs.len()));
                out.push(if *keep { "1" } else { "0" }.into());
                for f in fs {
                    out.push("F".into());
                    out.push(stok(&f.name));
                    let mut fl = String::new();
                    if f.req {
                        fl.push('r');
                    }
                    if f.null_absent {
                        fl.push('n');
                    }
                    if f.lenient {
                        fl.push('l');
                    }
                    if f.ghost {
                        fl.push('g');
                    }
                    if fl.is_empty() {
                        fl.push('-');
                    }
                    out.push(fl);
                    out.push("Y0".into());
                    match &f.dflt {
                        None => out.push("_".into()),
                        Some(d) => {
                            out.push("D".into());
                            out.push(jt::toks(d));
                        }
                    }
                    out.push(format!("S{}", f.skips.len()));
                    for k in &f.skips {
                        out.push(jt::toks(k));
                    }
                    f.m.tok(out);
                }
            }
        }
    }
    pub fn toks(&self) -> String {
        let mut v = Vec::new();
        self.tok(&mut v);
        v.join(" ")
    }
}

// ------------------------------------------------------------------------------------------
// The same schema as a Lean term (`Ruma.ContentSchema.Desc`, Model/ContentSchemaLeaves.lean)
// ------------------------------------------------------------------------------------------

pub fn lean_bytes(x: &str) -> String {
    format!("{:?}", x.as_bytes().iter().map(|b| u32::from(*b)).collect::<Vec<_>>())
}

pub fn lean_jval(j: &J) -> String {
    match j {
        J::Null => ".null".into(),
        J::Bool(b) => format!("(.bool {b})"),
        J::Int(n) if *n < 0 => format!("(.int ({n}))"),
        J::Int(n) => format!("(.int {n})"),
        J::Float(_) => ".float".into(),
        J::Str(x) => format!("(.str {})", lean_bytes(x)),
        J::Arr(xs) => format!("(.arr [{}])", xs.iter().map(lean_jval).collect::<Vec<_>>().join(", ")),
        J::Obj(es) => format!("(.obj [{}])", es.iter().map(|(k, v)| format!("({}, {})", lean_bytes(k), lean_jval(v))).collect::<Vec<_>>().join(", ")),
    }
}

impl Leaf {
    fn lean(&self) -> String {
        match self {
            Leaf::Const(c) => format!("(.const {})", lean_bytes(c)),
            Leaf::Enum(xs) => format!("(.oneOf [{}])", xs.iter().map(|x| lean_bytes(x)).collect::<Vec<_>>().join(", ")),
            k => {
                let n = format!("{k:?}");
                let mut c = n.chars();
                let first = c.next().unwrap().to_ascii_lowercase();
                // `UInt` is `.uint` in Lean, every other name only has its first letter lowered
                if n == "UInt" { ".uint".to_owned() } else { format!(".{}{}", first, c.as_str()) }
            }
        }
    }
    fn lean_key(&self) -> &'static str {
        match self {
            Leaf::UserId => ".userId",
            Leaf::EventId => ".eventId",
            Leaf::RoomId => ".roomId",
            Leaf::ServerName => ".serverName",
            Leaf::KeyId => ".keyId",
            _ => ".str",
        }
    }
}

impl M {
    /// The schema as a closed Lean term of type `Desc`; carries exactly what `tok` carries.
    pub fn lean(&self) -> String {
        match self {
            M::Any => ".any".into(),
            M::Leaf(l) => format!("(.leaf {})", l.lean()),
            M::Arr(e) => format!("(.arr {})", e.lean()),
            M::Map(k, v) => format!("(.map {} {})", k.lean_key(), v.lean()),
            M::NullOr(x) => format!("(.nullOr {})", x.lean()),
            M::Obj(fs, keep) => {
                let fields: Vec<String> = fs
                    .iter()
                    .map(|f| {
                        format!(
                            "\n    .mk {} [] {} {} {} {} {} [{}] {}",
                            lean_bytes(&f.name),
                            f.m.lean(),
                            f.req,
                            match &f.dflt {
                                None => "none".to_owned(),
                                Some(d) => format!("(some {})", lean_jval(d)),
                            },
                            f.null_absent,
                            f.lenient,
                            f.skips.iter().map(lean_jval).collect::<Vec<_>>().join(", "),
                            f.ghost
                        )
                    })
                    .collect();
                format!("(.obj [{}] {})", fields.join(","), keep)
            }
        }
    }
}

// ------------------------------------------------------------------------------------------
// Running the real code
// ------------------------------------------------------------------------------------------

/// `from_parts` → `to_string` → ordered parse (duplicates of the output kept).
pub fn real(kind: &str, ty: &str, content: &J) -> Option<J> {
    match crate::observe_content(kind, ty, &jt::to_text(content)) {
        Some(Ok(c)) => c.text.as_deref().and_then(jt::parse_text),
        _ => None,
    }
}

/// Entries of every object sorted by key (stable): the form both sides are compared in.
pub fn canon(j: &J) -> J {
    match j {
        J::Arr(xs) => J::Arr(xs.iter().map(canon).collect()),
        J::Obj(es) => {
            let mut v: Vec<(String, J)> = es.iter().map(|(k, x)| (k.clone(), canon(x))).collect();
            v.sort_by(|a, b| a.0.as_bytes().cmp(b.0.as_bytes()));
            J::Obj(v)
        }
        v => v.clone(),
    }
}

// ------------------------------------------------------------------------------------------
// T1: shape from the specification's schema, facts from the running code
// ------------------------------------------------------------------------------------------

#[derive(Clone, Debug)]
enum PE {
    Field(String),
    Elem,
    Val,
}

/// Types whose (de)serialisation is hand-written in a way the schema language cannot express; they
/// stay under the T3 oracles of `c18.content` only. (Shapes the converter cannot express — one-of,
/// distinct arrays, `Any` — are found automatically and reported with the reason.)
pub const HAND_WRITTEN: &[(&str, &str, &str)] = &[
    ("globalAccountData", "m.secret_storage.key.*", "SecretStorageEncryptionAlgorithm: hand-written Deserialize (untagged known/custom algorithm), content built by the type-fragment macro"),
];

/// Leaf kinds that belong to the code, not to the specification's schema (a lenient reader, a
/// stricter or laxer grammar). (type, field name, kind)
fn leaf_override(ty: &str, field: &str, spec: &S) -> Option<Leaf> {
    match (ty, field, spec) {
        ("m.room.power_levels", _, S::Int) => Some(Leaf::IntLax),
        ("m.room.canonical_alias", "alias", _) => Some(Leaf::RoomAliasOrEmpty),
        ("m.room.create", "room_version", _) => Some(Leaf::RoomVersion),
        ("m.receipt", "thread_id", _) => Some(Leaf::ReceiptThread),
        _ => None,
    }
}

/// `OneOf` of objects read by ONE derived struct (`m.room_key_request`: `action` + optional `body`):
/// the union of the fields; required iff required in every alternative; constants become enums.
fn merge_one_of(alts: &[S]) -> Option<S> {
    let mut fields: Vec<F> = Vec::new();
    for (n, a) in alts.iter().enumerate() {
        let S::Obj(fs) = a else { return None };
        for f in fs {
            if let Some(g) = fields.iter_mut().find(|g| g.name == f.name) {
                g.req = g.req && f.req;
                if let (S::Const(_), S::Const(_)) = (&g.s, &f.s) {
                    g.s = S::Str;
                }
            } else {
                let mut f = f.clone();
                if n > 0 {
                    f.req = false;
                }
                fields.push(f);
            }
        }
        for g in fields.iter_mut() {
            if !fs.iter().any(|f| f.name == g.name) {
                g.req = false;
            }
        }
    }
    Some(S::Obj(fields))
}

fn spec_for_model(t: &TypeSchema) -> S {
    match (t.ty, &t.content) {
        ("m.room_key_request", S::OneOf(alts)) => merge_one_of(alts).unwrap_or_else(|| t.content.clone()),
        _ => t.content.clone(),
    }
}

struct Prober<'a> {
    kind: &'a str,
    ty: String,
    spec: S,
    notes: Vec<String>,
}

fn fixed_rng() -> Rng {
    Rng::new(0x18c18)
}

impl<'a> Prober<'a> {
    /// Minimal content in which the value at `path` exists.
    fn base(&self, path: &[PE]) -> J {
        fn go(s: &S, path: &[PE], rng: &mut Rng) -> J {
            match (s, path.first()) {
                (S::NullOr(x), _) => go(x, path, rng),
                (_, None) => schema::gen(rng, s, Mode::Min),
                (S::Obj(fs), Some(PE::Field(name))) => {
                    let mut es = Vec::new();
                    for f in fs {
                        if f.name == name {
                            es.push((f.name.to_owned(), go(&f.s, &path[1..], rng)));
                        } else if f.req {
                            es.push((f.name.to_owned(), schema::gen(rng, &f.s, Mode::Min)));
                        }
                    }
                    J::Obj(es)
                }
                (S::Arr(x), Some(PE::Elem)) => arr(vec![go(x, &path[1..], rng)]),
                (S::Map(k, v), Some(PE::Val)) => {
                    let key = match schema::gen(rng, k, Mode::Min) {
                        J::Str(x) => x,
                        _ => "k".to_owned(),
                    };
                    J::Obj(vec![(key, go(v, &path[1..], rng))])
                }
                _ => J::Null,
            }
        }
        go(&self.spec, path, &mut fixed_rng())
    }

    fn run(&self, content: &J) -> Option<J> {
        real(self.kind, &self.ty, content)
    }
}

fn nav<'j>(j: &'j J, path: &[PE]) -> Option<&'j J> {
    let mut cur = j;
    for pe in path {
        cur = match (pe, cur) {
            (PE::Field(name), J::Obj(_)) => cur.get(name)?,
            (PE::Elem, J::Arr(xs)) => xs.first()?,
            (PE::Val, J::Obj(es)) => &es.first()?.1,
            _ => return None,
        };
    }
    Some(cur)
}

fn nav_mut<'j>(j: &'j mut J, path: &[PE]) -> Option<&'j mut J> {
    let mut cur = j;
    for pe in path {
        cur = match (pe, cur) {
            (PE::Field(name), J::Obj(es)) => &mut es.iter_mut().find(|(k, _)| k == name)?.1,
            (PE::Elem, J::Arr(xs)) => xs.first_mut()?,
            (PE::Val, J::Obj(es)) => &mut es.first_mut()?.1,
            _ => return None,
        };
    }
    Some(cur)
}

const BAD_STR: &str = "zz other!";

fn leaf_of_spec(s: &S) -> Option<Leaf> {
    Some(match s {
        S::Str | S::DeviceId | S::Mxc | S::Url => Leaf::Str,
        S::Int | S::ConstInt(_) => Leaf::Int,
        S::UInt | S::Ts => Leaf::UInt,
        S::Bool => Leaf::Bool,
        S::Float => Leaf::Float,
        S::UserId => Leaf::UserId,
        S::EventId => Leaf::EventId,
        S::RoomId => Leaf::RoomId,
        S::RoomAlias => Leaf::RoomAlias,
        S::ServerName => Leaf::ServerName,
        S::Base64 => Leaf::Base64,
        S::KeyId => Leaf::KeyId,
        S::Enum(xs) => Leaf::Enum(xs.iter().map(|x| (*x).to_owned()).collect()),
        S::Const(x) => Leaf::Const((*x).to_owned()),
        _ => return None,
    })
}

/// `version` of the VoIP events: the number 0 or a string.
fn is_voip(alts: &[S]) -> bool {
    alts.iter().any(|a| matches!(a, S::ConstInt(0))) && alts.iter().all(|a| matches!(a, S::ConstInt(0) | S::Const(_) | S::Enum(_)))
}

fn ill_typed_for(m_leaf: Option<&Leaf>) -> J {
    match m_leaf {
        Some(Leaf::Bool) => i(5),
        _ => J::Bool(true),
    }
}

impl<'a> Prober<'a> {
    /// Shape and facts of the value at `path` (whose specification schema is `s`).
    fn extract(&mut self, sp: &S, path: &[PE], field: &str) -> Result<M, String> {
        match sp {
            S::Any => Ok(M::Any),
            S::NullOr(x) => Ok(M::NullOr(Box::new(self.extract(x, path, field)?))),
            S::Arr(x) => {
                let mut p = path.to_vec();
                p.push(PE::Elem);
                Ok(M::Arr(Box::new(self.extract(x, &p, field)?)))
            }
            S::ArrDistinct(..) => Err("array with distinct elements (an IndexSet)".into()),
            S::OneOf(alts) if is_voip(alts) => Ok(M::Leaf(Leaf::Voip)),
            S::OneOf(_) => Err("one-of (hand-written or untagged Deserialize)".into()),
            S::Map(k, v) => {
                let mut p = path.to_vec();
                p.push(PE::Val);
                let mut kl = leaf_of_spec(k).ok_or("map key kind")?;
                // is the key type validated?
                let mut c = self.base(&p);
                if let Some(J::Obj(es)) = nav_mut(&mut c, path) {
                    if let Some(e) = es.first_mut() {
                        e.0 = BAD_STR.to_owned();
                    }
                }
                if self.run(&c).is_some() {
                    kl = Leaf::Str;
                }
                Ok(M::Map(kl, Box::new(self.extract(v, &p, field)?)))
            }
            S::Obj(fs) => {
                let mut out = Vec::new();
                for f in fs {
                    if let Some(mf) = self.field(f, path)? {
                        out.push(mf);
                    }
                }
                // catch-all?
                let probe_path: Vec<PE> = path.to_vec();
                let mut c = self.base(&probe_path);
                let mut keep = false;
                if let Some(J::Obj(es)) = nav_mut(&mut c, path) {
                    es.push(("zz.probe".to_owned(), i(1)));
                    match self.run(&c) {
                        Some(o) => keep = nav(&o, path).and_then(|x| x.get("zz.probe")).is_some(),
                        None => return Err(format!("an unknown key next to {field:?} is rejected")),
                    }
                }
                Ok(M::Obj(out, keep))
            }
            leaf => {
                let mut l = leaf_override(&self.ty, field, leaf).or_else(|| leaf_of_spec(leaf)).ok_or("leaf kind")?;
                // a string type with a grammar, or a plain string?
                if matches!(l, Leaf::UserId | Leaf::EventId | Leaf::RoomId | Leaf::RoomAlias | Leaf::ServerName | Leaf::KeyId | Leaf::Base64 | Leaf::Const(_) | Leaf::Enum(_)) {
                    let mut c = self.base(path);
                    if let Some(v) = nav_mut(&mut c, path) {
                        *v = s(BAD_STR);
                        if let Some(o) = self.run(&c) {
                            if nav(&o, path) == Some(&s(BAD_STR)) {
                                l = Leaf::Str;
                            }
                        }
                    }
                }
                Ok(M::Leaf(l))
            }
        }
    }

    /// Facts of field `f` of the struct at `q`. `Ok(None)`: the code does not know the field.
    fn field(&mut self, f: &F, q: &[PE]) -> Result<Option<MF>, String> {
        let mut p = q.to_vec();
        p.push(PE::Field(f.name.to_owned()));
        let base = self.base(&p);
        let Some(out_base) = self.run(&base) else {
            return Err(format!("minimal content with {} present is rejected", f.name));
        };
        let entry = |o: &J| nav(o, q).and_then(|x| x.get(f.name)).cloned();
        let base_entry = entry(&out_base);
        let with = |me: &Self, edit: &dyn Fn(&mut J)| -> Option<J> {
            let mut c = base.clone();
            edit(&mut c);
            me.run(&c)
        };
        // absent
        let absent = with(self, &|c| {
            if let Some(o) = nav_mut(c, q) {
                o.remove(f.name);
            }
        });
        let req = absent.is_none();
        let dflt = absent.as_ref().and_then(|o| entry(o));
        // null
        let null = with(self, &|c| {
            if let Some(v) = nav_mut(c, &p) {
                *v = J::Null;
            }
        });
        let null_entry = null.as_ref().map(|o| entry(o));
        let null_absent = !req && null_entry.as_ref() == Some(&dflt) && !matches!(f.s, S::Any);
        // ill-typed
        let child_leaf = leaf_override(&self.ty, f.name, &f.s).or_else(|| leaf_of_spec(&f.s));
        let ill = ill_typed_for(child_leaf.as_ref());
        let ill_out = if matches!(f.s, S::Any) {
            None
        } else {
            with(self, &|c| {
                if let Some(v) = nav_mut(c, &p) {
                    *v = ill.clone();
                }
            })
        };
        let mut lenient = false;
        if let Some(o) = &ill_out {
            if !req && entry(o) == dflt {
                lenient = true;
            } else {
                return Err(format!("field {} accepts an ill-typed value and keeps it", f.name));
            }
        }
        // not a field of the Rust type at all: present → not written, anything goes
        if base_entry.is_none() && lenient && null.is_some() && dflt.is_none() {
            self.notes.push(format!("{}: field `{}` of the specification is not a field of the Rust type (ignored like an unknown key)", self.ty, f.name));
            return Ok(None);
        }
        // a serialise-only constant
        let mut ghost = false;
        if let (S::Const(c), Some(J::Str(d))) = (&f.s, &dflt) {
            if d == c {
                let other = with(self, &|cc| {
                    if let Some(v) = nav_mut(cc, &p) {
                        *v = s(BAD_STR);
                    }
                });
                let twice = with(self, &|cc| {
                    if let Some(J::Obj(es)) = nav_mut(cc, q) {
                        es.push((f.name.to_owned(), s("zz")));
                    }
                });
                if other.as_ref().and_then(|o| entry(o)) == dflt && twice.as_ref().and_then(|o| entry(o)) == dflt {
                    ghost = true;
                }
            }
        }
        // values the serialiser leaves out
        let mut skips = Vec::new();
        if !ghost {
            let mut cands: Vec<J> = match &f.s {
                S::Bool => vec![J::Bool(true), J::Bool(false)],
                S::Int | S::UInt | S::Ts | S::Float => vec![i(0), i(50), i(100), i(256)],
                S::Arr(_) | S::ArrDistinct(..) => vec![arr(vec![])],
                S::Map(..) | S::Obj(_) => vec![J::Obj(vec![])],
                S::Any | S::OneOf(_) | S::NullOr(_) => vec![],
                _ => vec![s("")],
            };
            if let Some(b) = nav(&base, &p) {
                cands.push(b.clone());
            }
            for c in cands {
                let o = with(self, &|cc| {
                    if let Some(v) = nav_mut(cc, &p) {
                        *v = c.clone();
                    }
                });
                if let Some(o) = o {
                    // (the enclosing struct may vanish with it, when it thereby becomes its own default)
                    if entry(&o).is_none() && !skips.contains(&c) {
                        skips.push(c);
                    }
                }
            }
        }
        let m = if ghost { M::Leaf(Leaf::Str) } else { self.extract(&f.s, &p, f.name)? };
        if f.req != req && !ghost {
            self.notes.push(format!("{}: field `{}` is {} in the specification's schema and {} in the code", self.ty, f.name, if f.req { "required" } else { "optional" }, if req { "required" } else { "optional" }));
        }
        Ok(Some(MF { name: f.name.to_owned(), m, req: req && !ghost, dflt, null_absent: null_absent || ghost, lenient: lenient || ghost, ghost, skips }))
    }
}

pub struct Modelled {
    pub kind: &'static str,
    pub ty: String,
    pub spec: S,
    pub m: M,
    pub toks: String,
}

pub struct Extraction {
    pub modelled: Vec<Modelled>,
    /// (kind, type, reason)
    pub t3_only: Vec<(String, String, String)>,
    pub notes: Vec<String>,
}

pub fn extract_all(schemas: &[TypeSchema]) -> Extraction {
    let mut ex = Extraction { modelled: vec![], t3_only: vec![], notes: vec![] };
    for t in schemas {
        if let Some((_, _, why)) = HAND_WRITTEN.iter().find(|(k, ty, _)| *k == t.kind && *ty == t.ty) {
            ex.t3_only.push((t.kind.to_owned(), t.ty.to_owned(), (*why).to_owned()));
            continue;
        }
        let ty = if t.ty.ends_with(".*") { format!("{}abc", &t.ty[..t.ty.len() - 1]) } else { t.ty.to_owned() };
        let spec = spec_for_model(t);
        let mut p = Prober { kind: t.kind, ty: ty.clone(), spec: spec.clone(), notes: vec![] };
        match p.extract(&spec, &[], "") {
            Ok(m) => {
                let toks = m.toks();
                ex.notes.append(&mut p.notes);
                ex.modelled.push(Modelled { kind: t.kind, ty, spec, m, toks });
            }
            Err(why) => ex.t3_only.push((t.kind.to_owned(), t.ty.to_owned(), why)),
        }
    }
    ex
}

// ------------------------------------------------------------------------------------------
// T2: inputs
// ------------------------------------------------------------------------------------------

#[derive(Clone)]
enum Site<'m> {
    ObjNode(Vec<usize>),
    FieldVal(Vec<usize>, &'m MF),
    Absent(Vec<usize>, &'m MF),
    MapNode(Vec<usize>, &'m Leaf, &'m M),
    LeafVal(Vec<usize>, &'m Leaf),
}

fn sites<'m>(m: &'m M, j: &J, path: &mut Vec<usize>, out: &mut Vec<Site<'m>>) {
    match (m, j) {
        (M::Obj(fs, _), J::Obj(es)) => {
            out.push(Site::ObjNode(path.clone()));
            for (n, (k, v)) in es.iter().enumerate() {
                if let Some(f) = fs.iter().find(|f| f.name == *k) {
                    path.push(n);
                    out.push(Site::FieldVal(path.clone(), f));
                    sites(&f.m, v, path, out);
                    path.pop();
                }
            }
            for f in fs {
                if !es.iter().any(|(k, _)| *k == f.name) {
                    out.push(Site::Absent(path.clone(), f));
                }
            }
        }
        (M::Arr(e), J::Arr(xs)) => {
            for (n, x) in xs.iter().enumerate() {
                path.push(n);
                sites(e, x, path, out);
                path.pop();
            }
        }
        (M::Map(k, v), J::Obj(es)) => {
            out.push(Site::MapNode(path.clone(), k, v));
            for (n, (_, x)) in es.iter().enumerate() {
                path.push(n);
                sites(v, x, path, out);
                path.pop();
            }
        }
        (M::NullOr(x), v) if *v != J::Null => sites(x, v, path, out),
        (M::Leaf(l), _) => out.push(Site::LeafVal(path.clone(), l)),
        _ => {}
    }
}

fn at_mut<'j>(j: &'j mut J, path: &[usize]) -> Option<&'j mut J> {
    let mut cur = j;
    for n in path {
        cur = match cur {
            J::Obj(es) => &mut es.get_mut(*n)?.1,
            J::Arr(xs) => xs.get_mut(*n)?,
            _ => return None,
        };
    }
    Some(cur)
}

const MAX: i64 = 9007199254740991;

fn leaf_values(rng: &mut Rng, l: &Leaf) -> J {
    let strs = |rng: &mut Rng, xs: &[&str]| s(*rng.pick(xs));
    match l {
        Leaf::Str => strs(rng, &["", "a", "zz other!", "é日本", "q\"uo\\te", "$x", "1"]),
        Leaf::Int => rng.pick(&[i(0), i(-1), i(50), i(100), i(MAX), i(-MAX), i(MAX + 1), i(-MAX - 1), J::Float(0.5), s("5")]).clone(),
        Leaf::UInt => rng.pick(&[i(0), i(-1), i(1), i(256), i(MAX), i(MAX + 1), J::Float(0.5), s("5")]).clone(),
        Leaf::Bool => rng.pick(&[J::Bool(true), J::Bool(false), i(0), s("true")]).clone(),
        Leaf::Float => rng.pick(&[i(0), i(1), i(-3), J::Float(0.5), s("0.5"), i(MAX + 1)]).clone(),
        Leaf::IntLax => rng
            .pick(&[i(0), i(50), i(-1), i(MAX), i(MAX + 1), i(-MAX - 1), J::Float(0.5), s("50"), s("0"), s(" 7 "), s("+5"), s("++5"), s("-3"), s("-0"), s("abc"), s(""), s("1.5"), s("007"), s("9007199254740991"), s("9007199254740992"), s("+"), s("-"), s("\t12\n"), s("+-5"), s("-+5"), s("5 5")])
            .clone(),
        Leaf::Voip => rng.pick(&[i(0), i(1), i(-1), s("0"), s("1"), s("00"), s("org.example"), s(""), J::Float(0.5), J::Bool(true)]).clone(),
        Leaf::UserId => strs(rng, &["@alice:example.org", "@:example.org", "@a:h.example:8448", "@a:[::1]:80", "alice:example.org", "@alice", "", "@a:b c", "@a:", "@A:example.org", "@a:1.2.3.4"]),
        Leaf::EventId => strs(rng, &["$ev1:example.org", "$Rqnc-F-dvnEYJTyHq_iKxU2bZ1CI92-kuZq3a5lr5Zg", "$", "ev", "", "$a:b c", "$a:"]),
        Leaf::RoomId => strs(rng, &["!room:example.org", "!abc", "!", "room:example.org", "", "#room:example.org"]),
        Leaf::RoomAlias | Leaf::RoomAliasOrEmpty => strs(rng, &["#room:example.org", "#:example.org", "#a-b_c:h.example:8448", "room:example.org", "#room", "", "#a:b c"]),
        Leaf::ServerName => strs(rng, &["example.org", "h.example:8448", "1.2.3.4", "[::1]:8448", "[::1]", "", "a b", "/x", "example.org:", "example.org:123456", "EXAMPLE.org", "[::g]"]),
        Leaf::KeyId => strs(rng, &["ed25519:ABCDEFG", "ed25519:1", "ed25519:a_b", "nocolon", ":x", "ed25519:", "ed25519:a b", ""]),
        Leaf::RoomVersion => strs(rng, &["1", "11", "org.example.custom", "a-b.c", "", "a b", "0123456789012345678901234567890123", "é"]),
        Leaf::Base64 => strs(rng, &["YWJj", "YWI", "YWI=", "YQ", "YQ==", "YQ=", "YWJjZB", "YWJjZA", "YWJj=", "Y", "YW Jj", "YW-_", "", "====", "YWJjZ+/", "YWJjZ+/="]),
        Leaf::ReceiptThread => strs(rng, &["main", "$thread_root:example.org", "$abc", "org.custom", "", "$a:b c"]),
        Leaf::Const(c) => {
            if rng.chance(1, 2) {
                s(c)
            } else {
                strs(rng, &["zz other!", ""])
            }
        }
        Leaf::Enum(xs) => {
            if rng.chance(1, 2) {
                s(rng.pick(xs))
            } else {
                strs(rng, &["zz other!", ""])
            }
        }
    }
}

fn gen_m(rng: &mut Rng, m: &M, depth: u32) -> J {
    match m {
        M::Any => crate::extra_value(rng),
        M::Leaf(l) => {
            // mostly a valid value
            let valid: J = match l {
                Leaf::Str => s("v"),
                Leaf::Int | Leaf::IntLax => i(rng.range(-5, 120)),
                Leaf::UInt => i(rng.range(0, 500)),
                Leaf::Bool => J::Bool(rng.chance(1, 2)),
                Leaf::Float => i(rng.range(0, 3)),
                Leaf::Voip => s("1"),
                Leaf::UserId => s("@alice:example.org"),
                Leaf::EventId => s("$ev1:example.org"),
                Leaf::RoomId => s("!room:example.org"),
                Leaf::RoomAlias | Leaf::RoomAliasOrEmpty => s("#room:example.org"),
                Leaf::ServerName => s("example.org"),
                Leaf::KeyId => s("ed25519:ABCDEFG"),
                Leaf::RoomVersion => s("10"),
                Leaf::Base64 => s("YWJj"),
                Leaf::ReceiptThread => s("main"),
                Leaf::Const(c) => s(c),
                Leaf::Enum(xs) => s(rng.pick(xs)),
            };
            if rng.chance(3, 4) {
                valid
            } else {
                leaf_values(rng, l)
            }
        }
        M::Arr(e) => arr((0..rng.below(3)).map(|_| gen_m(rng, e, depth + 1)).collect()),
        M::Map(k, v) => {
            let n = rng.below(3);
            J::Obj((0..n).map(|_| (match gen_m(rng, &M::Leaf(k.clone()), depth + 1) { J::Str(x) => x, _ => "k".into() }, gen_m(rng, v, depth + 1))).collect())
        }
        M::NullOr(x) => {
            if rng.chance(1, 3) {
                J::Null
            } else {
                gen_m(rng, x, depth)
            }
        }
        M::Obj(fs, _) => {
            let mut es = Vec::new();
            for f in fs {
                if f.req || (depth < 4 && rng.chance(1, 2)) {
                    es.push((f.name.clone(), gen_m(rng, &f.m, depth + 1)));
                }
            }
            J::Obj(es)
        }
    }
}

fn wrong_type(rng: &mut Rng, m: &M) -> Option<J> {
    Some(match m {
        M::Any => return None,
        // (an array where a struct is expected is serde's positional form: not modelled, not generated)
        M::Obj(..) | M::Map(..) => rng.pick(&[i(5), s("zz"), J::Bool(true), J::Float(0.5)]).clone(),
        M::Arr(_) => rng.pick(&[i(5), s("zz"), J::Bool(false), J::Obj(vec![])]).clone(),
        M::NullOr(x) => return wrong_type(rng, x),
        M::Leaf(Leaf::Bool) => rng.pick(&[i(1), s("true"), arr(vec![]), J::Obj(vec![])]).clone(),
        M::Leaf(Leaf::Int | Leaf::UInt | Leaf::Float) => rng.pick(&[J::Bool(true), s("zz"), arr(vec![i(1)]), J::Obj(vec![])]).clone(),
        M::Leaf(Leaf::IntLax | Leaf::Voip) => rng.pick(&[J::Bool(true), arr(vec![i(1)]), J::Obj(vec![])]).clone(),
        M::Leaf(_) => rng.pick(&[i(5), J::Bool(true), arr(vec![s("a")]), J::Obj(vec![]), J::Float(0.5)]).clone(),
    })
}

/// One random edit of `j`, guided by the model schema; the label names the cell.
fn mutate(rng: &mut Rng, m: &M, j: &mut J) -> &'static str {
    let mut all = Vec::new();
    sites(m, j, &mut Vec::new(), &mut all);
    if all.is_empty() {
        return "none";
    }
    let pick_site = |rng: &mut Rng, f: &dyn Fn(&Site) -> bool| -> Option<Site> {
        let v: Vec<&Site> = all.iter().filter(|x| f(x)).collect();
        if v.is_empty() {
            None
        } else {
            Some((*rng.pick(&v)).clone())
        }
    };
    match rng.below(12) {
        0 | 1 => {
            if let Some(Site::ObjNode(p)) = pick_site(rng, &|x| matches!(x, Site::ObjNode(..))) {
                if let Some(J::Obj(es)) = at_mut(j, &p) {
                    let pos = rng.below(es.len() + 1);
                    es.insert(pos, ((*rng.pick(crate::EXTRA_KEYS)).to_owned(), crate::extra_value(rng)));
                    return "unknown";
                }
            }
        }
        2 => {
            if let Some(Site::ObjNode(p)) = pick_site(rng, &|x| matches!(x, Site::ObjNode(..))) {
                if let Some(J::Obj(es)) = at_mut(j, &p) {
                    let k = (*rng.pick(crate::EXTRA_KEYS)).to_owned();
                    for _ in 0..2 {
                        let pos = rng.below(es.len() + 1);
                        es.insert(pos, (k.clone(), crate::extra_value(rng)));
                    }
                    return "unknown-dup";
                }
            }
        }
        3 => {
            if let Some(Site::FieldVal(p, _)) = pick_site(rng, &|x| matches!(x, Site::FieldVal(..))) {
                if let Some(v) = at_mut(j, &p) {
                    *v = J::Null;
                    return "null";
                }
            }
        }
        4 => {
            if let Some(Site::FieldVal(p, f)) = pick_site(rng, &|x| matches!(x, Site::FieldVal(..))) {
                if let (Some(w), Some(v)) = (wrong_type(rng, &f.m), at_mut(j, &p)) {
                    *v = w;
                    return "ill-typed";
                }
            }
        }
        5 => {
            if let Some(Site::FieldVal(p, f)) = pick_site(rng, &|x| matches!(x, Site::FieldVal(..))) {
                let (last, parent) = p.split_last().unwrap();
                if let Some(J::Obj(es)) = at_mut(j, parent) {
                    let copy = if rng.chance(1, 2) { es[*last].1.clone() } else { gen_m(rng, &f.m, 3) };
                    let pos = rng.below(es.len() + 1);
                    es.insert(pos, (f.name.clone(), copy));
                    return "known-dup";
                }
            }
        }
        6 => {
            if let Some(Site::FieldVal(p, _)) = pick_site(rng, &|x| matches!(x, Site::FieldVal(..))) {
                let (last, parent) = p.split_last().unwrap();
                if let Some(J::Obj(es)) = at_mut(j, parent) {
                    es.remove(*last);
                    return "removed";
                }
            }
        }
        7 => {
            if let Some(Site::Absent(p, f)) = pick_site(rng, &|x| matches!(x, Site::Absent(..))) {
                if let Some(J::Obj(es)) = at_mut(j, &p) {
                    let pos = rng.below(es.len() + 1);
                    es.insert(pos, (f.name.clone(), gen_m(rng, &f.m, 2)));
                    return "added";
                }
            }
        }
        8 | 9 => {
            if let Some(Site::LeafVal(p, l)) = pick_site(rng, &|x| matches!(x, Site::LeafVal(..))) {
                if let Some(v) = at_mut(j, &p) {
                    *v = leaf_values(rng, l);
                    return "leaf";
                }
            }
        }
        10 => {
            if let Some(Site::FieldVal(p, f)) = pick_site(rng, &|x| matches!(x, Site::FieldVal(..))) {
                if let Some(v) = at_mut(j, &p) {
                    let mut c: Vec<J> = f.skips.clone();
                    c.extend([J::Bool(true), J::Bool(false), i(0), i(50), J::Obj(vec![]), s("")]);
                    // (an array where a struct is expected is serde's positional form: not modelled)
                    let is_struct = |m: &M| matches!(m, M::Obj(..)) || matches!(m, M::NullOr(x) if matches!(**x, M::Obj(..)));
                    if !is_struct(&f.m) {
                        c.push(arr(vec![]));
                    }
                    if let Some(d) = &f.dflt {
                        c.push(d.clone());
                    }
                    *v = rng.pick(&c).clone();
                    return "default-like";
                }
            }
        }
        _ => {
            if let Some(Site::MapNode(p, k, v)) = pick_site(rng, &|x| matches!(x, Site::MapNode(..))) {
                if let Some(J::Obj(es)) = at_mut(j, &p) {
                    let key = if !es.is_empty() && rng.chance(1, 2) {
                        es[rng.below(es.len())].0.clone()
                    } else {
                        match leaf_values(rng, k) {
                            J::Str(x) => x,
                            _ => "k".into(),
                        }
                    };
                    let pos = rng.below(es.len() + 1);
                    es.insert(pos, (key, gen_m(rng, v, 3)));
                    return "map-entry";
                }
            }
        }
    }
    "none"
}

pub fn gen_schema_req(rng: &mut Rng, ex: &Extraction) -> Req {
    let t = rng.pick(&ex.modelled);
    let mode = crate::pick_mode(rng);
    let mut j = if rng.chance(4, 5) { schema::gen(rng, &t.spec, mode) } else { gen_m(rng, &t.m, 0) };
    let mut labels: Vec<&'static str> = Vec::new();
    for _ in 0..rng.below(4) {
        labels.push(mutate(rng, &t.m, &mut j));
    }
    if rng.chance(1, 2) {
        crate::shuffle_deep(rng, &mut j);
    }
    let cls = if labels.is_empty() { "schema.plain".to_owned() } else { format!("schema.{}", labels[0]) };
    if !matches!(j, J::Obj(_)) {
        j = J::Obj(vec![]);
    }
    Req::new(format!("c18.schema {} {} {} {}", t.kind, stok(&t.ty), jt::toks(&j), t.toks), cls)
}

// ------------------------------------------------------------------------------------------
// T2/T3: the implementation's answer
// ------------------------------------------------------------------------------------------

pub fn run_schema(req: &str, kind: &str, ty: &str, content: &J, schema_head: &str) -> Outcome {
    let text = jt::to_text(content);
    let Some(res) = crate::observe_content(kind, ty, &text) else { return Outcome::bad() };
    let mut t3 = Vec::new();
    let imp = match res {
        Err(()) => "err".to_owned(),
        Ok(c) => match c.text.as_deref().and_then(|t| jt::parse_text(t).map(|j| (t.to_owned(), j))) {
            None => {
                t3.push("typed content does not serialise to valid JSON".to_owned());
                "err".to_owned()
            }
            Some((s1, out)) => {
                if out.has_dup_keys_deep() {
                    t3.push(format!("serialised content has duplicate keys: {s1}"));
                }
                match crate::observe_content(kind, ty, &s1) {
                    Some(Ok(c2)) => {
                        if c2.text.as_deref() != Some(s1.as_str()) {
                            t3.push(format!("not a fixpoint: {s1} -> {:?}", c2.text));
                        }
                    }
                    _ => t3.push(format!("own output was rejected: {s1}")),
                }
                if !content.has_dup_keys_deep() {
                    let mut rng = crate::req_rng(req);
                    let mut p = content.clone();
                    crate::shuffle_deep(&mut rng, &mut p);
                    match real(kind, ty, &p) {
                        Some(o2) if canon(&o2) == canon(&out) => {}
                        Some(_) => t3.push("serialised content depends on input key order".into()),
                        None => t3.push("permuted content was rejected".into()),
                    }
                    // an unknown key at the top of a struct-shaped content
                    if schema_head.starts_with('O') {
                        if let J::Obj(es) = content {
                            let mut es = es.clone();
                            let pos = rng.below(es.len() + 1);
                            es.insert(pos, ("zz.oracle.extra".to_owned(), crate::extra_value(&mut rng)));
                            match real(kind, ty, &J::Obj(es)) {
                                Some(mut o4) => {
                                    o4.remove("zz.oracle.extra");
                                    if canon(&o4) != canon(&out) {
                                        t3.push("an unknown extra field changed the serialised content".into());
                                    }
                                }
                                None => t3.push("an unknown extra field in content caused a rejection".into()),
                            }
                        }
                    }
                }
                format!("ok {}", jt::toks(&canon(&out)))
            }
        },
    };
    Outcome { imp, t3 }
}

fn field_paths(sp: &S, path: &mut Vec<PE>, out: &mut Vec<(Vec<PE>, String)>) {
    match sp {
        S::NullOr(x) => field_paths(x, path, out),
        S::Obj(fs) => {
            for f in fs {
                out.push((path.clone(), f.name.to_owned()));
                path.push(PE::Field(f.name.to_owned()));
                field_paths(&f.s, path, out);
                path.pop();
            }
        }
        S::Arr(x) => {
            path.push(PE::Elem);
            field_paths(x, path, out);
            path.pop();
        }
        S::Map(_, v) => {
            path.push(PE::Val);
            field_paths(v, path, out);
            path.pop();
        }
        _ => {}
    }
}

/// The facts of today's code frozen in request lines: per modelled type the minimal and two maximal
/// spec-shaped contents, and per field (at every depth) the minimal content with the field present
/// and with the field left out.
pub fn pin_lines(ex: &Extraction) -> Vec<String> {
    let mut v: Vec<String> = Vec::new();
    for t in &ex.modelled {
        let mut push = |j: &J| {
            let l = format!("c18.schema {} {} {} {}", t.kind, stok(&t.ty), jt::toks(j), t.toks);
            if !v.contains(&l) {
                v.push(l);
            }
        };
        for (n, mode) in [Mode::Min, Mode::Max, Mode::Max].iter().enumerate() {
            let mut rng = Rng::new(1800 + n as u64);
            push(&schema::gen(&mut rng, &t.spec, *mode));
        }
        let p = Prober { kind: t.kind, ty: t.ty.clone(), spec: t.spec.clone(), notes: vec![] };
        let mut fps = Vec::new();
        field_paths(&t.spec, &mut Vec::new(), &mut fps);
        for (q, name) in fps {
            let mut full = q.clone();
            full.push(PE::Field(name.clone()));
            let base = p.base(&full);
            if matches!(base, J::Obj(_)) {
                push(&base);
                let mut without = base.clone();
                if let Some(o) = nav_mut(&mut without, &q) {
                    o.remove(&name);
                }
                push(&without);
            }
        }
    }
    v
}

/// Requests that pin the machine-checked witnesses of `Props/C18Schema.lean` on the real code.
pub fn witness_reqs(ex: &Extraction) -> Vec<String> {
    let mut v = Vec::new();
    let mut push = |ty: &str, j: J| {
        if let Some(t) = ex.modelled.iter().find(|t| t.ty == ty && (t.kind == "toDevice" || ty != "m.key.verification.key")) {
            v.push(format!("c18.schema {} {} {} {}", t.kind, stok(&t.ty), jt::toks(&j), t.toks));
        }
    };
    push("m.room.power_levels", obj(vec![("ban", i(50))]));
    push("m.room.power_levels", obj(vec![("kick", s("50")), ("invite", s(" +7 ")), ("users", obj(vec![("@b:x.y", i(100)), ("@a:x.y", s("1")), ("@b:x.y", i(7))]))]));
    push("m.key.verification.key", obj(vec![("key", s("YWI=")), ("transaction_id", s("t"))]));
    push("m.tag", obj(vec![("tags", obj(vec![("u.work", obj(vec![("order", i(1))]))]))]));
    v
}
