//! Ordered JSON tree: objects are entry lists in text order, duplicates allowed. This is what the
//! request lines carry (`o<count> key value …` in text order) and what the Lean model works on.
use std::fmt::Write as _;

use h_lib::{h_util, stok, Rng};
use serde::de::{Deserialize, Deserializer, MapAccess, SeqAccess, Visitor};

#[derive(Clone, Debug, PartialEq)]
pub enum J {
    Null,
    Bool(bool),
    Int(i128),
    /// every number that is not an integer fitting i64/u64; the token protocol has one such
    /// value (`x`, written `0.5`), texts parsed from the implementation keep theirs
    Float(f64),
    Str(String),
    Arr(Vec<J>),
    Obj(Vec<(String, J)>),
}

pub fn s(x: impl AsRef<str>) -> J {
    J::Str(x.as_ref().to_owned())
}
pub fn i(x: i64) -> J {
    J::Int(x as i128)
}
pub fn obj(entries: Vec<(&str, J)>) -> J {
    J::Obj(entries.into_iter().map(|(k, v)| (k.to_owned(), v)).collect())
}
pub fn arr(xs: Vec<J>) -> J {
    J::Arr(xs)
}

impl J {
    /// numeric value, if a number
    pub fn num(&self) -> Option<f64> {
        match self {
            J::Int(n) => Some(*n as f64),
            J::Float(f) => Some(*f),
            _ => None,
        }
    }
    pub fn get(&self, k: &str) -> Option<&J> {
        match self {
            J::Obj(es) => es.iter().find(|(kk, _)| kk == k).map(|(_, v)| v),
            _ => None,
        }
    }
    pub fn entries(&self) -> &[(String, J)] {
        match self {
            J::Obj(es) => es,
            _ => &[],
        }
    }
    pub fn entries_mut(&mut self) -> Option<&mut Vec<(String, J)>> {
        match self {
            J::Obj(es) => Some(es),
            _ => None,
        }
    }
    pub fn as_str(&self) -> Option<&str> {
        match self {
            J::Str(s) => Some(s),
            _ => None,
        }
    }
    pub fn set(&mut self, k: &str, v: J) {
        if let J::Obj(es) = self {
            if let Some(e) = es.iter_mut().find(|(kk, _)| kk == k) {
                e.1 = v;
            } else {
                es.push((k.to_owned(), v));
            }
        }
    }
    pub fn remove(&mut self, k: &str) {
        if let J::Obj(es) = self {
            es.retain(|(kk, _)| kk != k);
        }
    }
    pub fn has_dup_keys_deep(&self) -> bool {
        match self {
            J::Obj(es) => {
                let mut seen = std::collections::BTreeSet::new();
                es.iter().any(|(k, v)| !seen.insert(k.as_str()) || v.has_dup_keys_deep())
            }
            J::Arr(xs) => xs.iter().any(J::has_dup_keys_deep),
            _ => false,
        }
    }
    /// The tree a full `serde_json::Value` parse yields: maps sorted, a later duplicate wins.
    pub fn normalized(&self) -> J {
        match self {
            J::Obj(es) => {
                let mut m = std::collections::BTreeMap::new();
                for (k, v) in es {
                    m.insert(k.clone(), v.normalized());
                }
                J::Obj(m.into_iter().collect())
            }
            J::Arr(xs) => J::Arr(xs.iter().map(J::normalized).collect()),
            v => v.clone(),
        }
    }
}

// ---- text ----

pub fn write_str(out: &mut String, x: &str) {
    out.push_str(&serde_json::to_string(x).unwrap());
}

pub fn to_text(j: &J) -> String {
    let mut out = String::new();
    write_text(j, &mut out);
    out
}

pub fn write_text(j: &J, out: &mut String) {
    match j {
        J::Null => out.push_str("null"),
        J::Bool(true) => out.push_str("true"),
        J::Bool(false) => out.push_str("false"),
        J::Int(n) => write!(out, "{n}").unwrap(),
        J::Float(f) => out.push_str(&serde_json::to_string(f).unwrap()),
        J::Str(x) => write_str(out, x),
        J::Arr(xs) => {
            out.push('[');
            for (n, x) in xs.iter().enumerate() {
                if n > 0 {
                    out.push(',');
                }
                write_text(x, out);
            }
            out.push(']');
        }
        J::Obj(es) => {
            out.push('{');
            for (n, (k, v)) in es.iter().enumerate() {
                if n > 0 {
                    out.push(',');
                }
                write_str(out, k);
                out.push(':');
                write_text(v, out);
            }
            out.push('}');
        }
    }
}

fn ws(rng: &mut Rng, out: &mut String) {
    while rng.chance(1, 3) {
        out.push(*rng.pick(&[' ', '\n', '\t', '\r']));
    }
}

/// Escape some characters of a string as `\uXXXX` (same denotation, different text).
fn write_str_noisy(rng: &mut Rng, out: &mut String, x: &str) {
    out.push('"');
    for c in x.chars() {
        let cp = c as u32;
        if cp < 0x20 || c == '"' || c == '\\' {
            let mut t = String::new();
            write_str(&mut t, &c.to_string());
            out.push_str(&t[1..t.len() - 1]);
        } else if cp < 0x10000 && rng.chance(1, 4) {
            write!(out, "\\u{cp:04x}").unwrap();
        } else if c == '/' && rng.chance(1, 2) {
            out.push_str("\\/");
        } else {
            out.push(c);
        }
    }
    out.push('"');
}

/// Same value, noisy text: random whitespace, `\u` escapes in keys and strings.
pub fn write_text_noisy(rng: &mut Rng, j: &J, out: &mut String) {
    match j {
        J::Str(x) => write_str_noisy(rng, out, x),
        J::Arr(xs) => {
            out.push('[');
            ws(rng, out);
            for (n, x) in xs.iter().enumerate() {
                if n > 0 {
                    out.push(',');
                    ws(rng, out);
                }
                write_text_noisy(rng, x, out);
                ws(rng, out);
            }
            out.push(']');
        }
        J::Obj(es) => {
            out.push('{');
            ws(rng, out);
            for (n, (k, v)) in es.iter().enumerate() {
                if n > 0 {
                    out.push(',');
                    ws(rng, out);
                }
                write_str_noisy(rng, out, k);
                ws(rng, out);
                out.push(':');
                ws(rng, out);
                write_text_noisy(rng, v, out);
                ws(rng, out);
            }
            out.push('}');
        }
        v => write_text(v, out),
    }
}

// ---- ordered parse (keeps duplicates and order) ----

struct JVisitor;

impl<'de> Visitor<'de> for JVisitor {
    type Value = J;
    fn expecting(&self, f: &mut std::fmt::Formatter<'_>) -> std::fmt::Result {
        f.write_str("any JSON value")
    }
    fn visit_unit<E>(self) -> Result<J, E> {
        Ok(J::Null)
    }
    fn visit_bool<E>(self, b: bool) -> Result<J, E> {
        Ok(J::Bool(b))
    }
    fn visit_i64<E>(self, n: i64) -> Result<J, E> {
        Ok(J::Int(n as i128))
    }
    fn visit_u64<E>(self, n: u64) -> Result<J, E> {
        Ok(J::Int(n as i128))
    }
    fn visit_f64<E>(self, f: f64) -> Result<J, E> {
        Ok(J::Float(f))
    }
    fn visit_str<E>(self, x: &str) -> Result<J, E> {
        Ok(J::Str(x.to_owned()))
    }
    fn visit_seq<A: SeqAccess<'de>>(self, mut a: A) -> Result<J, A::Error> {
        let mut v = Vec::new();
        while let Some(x) = a.next_element::<J>()? {
            v.push(x);
        }
        Ok(J::Arr(v))
    }
    fn visit_map<A: MapAccess<'de>>(self, mut a: A) -> Result<J, A::Error> {
        let mut v = Vec::new();
        while let Some((k, x)) = a.next_entry::<String, J>()? {
            v.push((k, x));
        }
        Ok(J::Obj(v))
    }
}

impl<'de> Deserialize<'de> for J {
    fn deserialize<D: Deserializer<'de>>(d: D) -> Result<J, D::Error> {
        d.deserialize_any(JVisitor)
    }
}

pub fn parse_text(text: &str) -> Option<J> {
    serde_json::from_str::<J>(text).ok()
}

// ---- tokens ----

pub fn tok(j: &J, out: &mut String) {
    match j {
        J::Null => out.push('n'),
        J::Bool(true) => out.push('t'),
        J::Bool(false) => out.push('f'),
        J::Int(n) => write!(out, "i{n}").unwrap(),
        J::Float(_) => out.push('x'),
        J::Str(x) => out.push_str(&stok(x)),
        J::Arr(xs) => {
            write!(out, "a{}", xs.len()).unwrap();
            for x in xs {
                out.push(' ');
                tok(x, out);
            }
        }
        J::Obj(es) => {
            write!(out, "o{}", es.len()).unwrap();
            for (k, v) in es {
                out.push(' ');
                out.push_str(&stok(k));
                out.push(' ');
                tok(v, out);
            }
        }
    }
}

pub fn toks(j: &J) -> String {
    let mut out = String::new();
    tok(j, &mut out);
    out
}

pub fn parse_toks(it: &mut std::slice::Iter<'_, &str>) -> Option<J> {
    let t = *it.next()?;
    if t.is_empty() {
        return None;
    }
    let (head, rest) = t.split_at(1);
    Some(match head {
        "n" if rest.is_empty() => J::Null,
        "t" if rest.is_empty() => J::Bool(true),
        "f" if rest.is_empty() => J::Bool(false),
        "x" if rest.is_empty() => J::Float(0.5),
        "i" => J::Int(rest.parse().ok()?),
        "s" => J::Str(h_util::unhex_str(rest)?),
        "a" => {
            let n: usize = rest.parse().ok()?;
            let mut v = Vec::new();
            for _ in 0..n {
                v.push(parse_toks(it)?);
            }
            J::Arr(v)
        }
        "o" => {
            let n: usize = rest.parse().ok()?;
            let mut v = Vec::new();
            for _ in 0..n {
                let k = *it.next()?;
                let k = h_util::unhex_str(k.strip_prefix('s')?)?;
                v.push((k, parse_toks(it)?));
            }
            J::Obj(v)
        }
        _ => return None,
    })
}

pub fn str_tok(t: &str) -> Option<String> {
    h_util::unhex_str(t.strip_prefix('s')?)
}
