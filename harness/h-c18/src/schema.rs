//! Content schemas of the Matrix specification's event types (client-server API event index),
//! written from the specification, not from the code under test, and a generator of spec-shaped
//! contents: required fields always, optional fields present/absent.
use h_lib::Rng;

use crate::jt::{arr, i, obj, s, J};

#[derive(Clone)]
pub enum S {
    Str,
    Int,
    UInt,
    Bool,
    Float,
    UserId,
    EventId,
    RoomId,
    RoomAlias,
    ServerName,
    DeviceId,
    Mxc,
    Url,
    Base64,
    KeyId,
    Ts,
    /// one of the spec's enumerated strings
    Enum(&'static [&'static str]),
    Const(&'static str),
    ConstInt(i64),
    Obj(Vec<F>),
    Arr(Box<S>),
    /// array of objects whose field `.1` is pairwise distinct
    ArrDistinct(Box<S>, &'static str),
    /// object with generated keys
    Map(Box<S>, Box<S>),
    OneOf(Vec<S>),
    /// string or null
    NullOr(Box<S>),
    Any,
}

#[derive(Clone)]
pub struct F {
    pub name: &'static str,
    pub req: bool,
    pub s: S,
}

pub fn r(name: &'static str, s: S) -> F {
    F { name, req: true, s }
}
pub fn o(name: &'static str, s: S) -> F {
    F { name, req: false, s }
}
fn ob(fs: Vec<F>) -> S {
    S::Obj(fs)
}
fn ar(x: S) -> S {
    S::Arr(Box::new(x))
}
fn map(k: S, v: S) -> S {
    S::Map(Box::new(k), Box::new(v))
}

#[derive(Clone, Copy, PartialEq)]
pub enum Mode {
    Min,
    Max,
    Rand,
}

const STRS: &[&str] = &["", "a", "0", "1", "-1", "true", "null", "00", "hello world", "é日本", "q\"uo\\te", "line\nbreak", "x/y", "\u{1F600}"];
const USERS: &[&str] = &["@alice:example.org", "@bob:matrix.org", "@carol:h.example:8448", "@_irc_d:x.y"];
const EVENTS: &[&str] = &["$ev1:example.org", "$Rqnc-F-dvnEYJTyHq_iKxU2bZ1CI92-kuZq3a5lr5Zg", "$143273582443PhrSn:example.org"];
const ROOMS: &[&str] = &["!room:example.org", "!jEsUZKDJdhlrceRyVU:example.org", "!abc:h.example:8448"];
const ALIASES: &[&str] = &["#room:example.org", "#somewhere:localhost", "#a-b_c:h.example:8448"];
const SERVERS: &[&str] = &["example.org", "matrix.org", "h.example:8448", "1.2.3.4", "[::1]:8448"];
const DEVICES: &[&str] = &["ABCDEFG", "JLAFKJWSCS", "dev-1"];
const MXCS: &[&str] = &["mxc://example.org/abcDEF123", "mxc://matrix.org/SEsfnsuifSDFSSEF"];
const URLS: &[&str] = &["https://example.org/path?q=1", "https://magic.forest/verify"];
const B64: &[&str] = &["YWJj", "fQpGIW1Snz+pwLZu6sTy2aHy/DYWWTspTJRPyNp0PKkymfIsNffysMl6ObMMFdIJhk6g6pwlIqZ54rxo8SLmAg", "abcdefghijklmnopqrstuvwxyzABCDEFGHIJKLMNOPQRSTUVWXYZ0123456789+/AA"];
const KEYIDS: &[&str] = &["ed25519:ABCDEFG", "ed25519:1", "curve25519:JLAFKJWSCS"];

pub fn gen(rng: &mut Rng, sch: &S, mode: Mode) -> J {
    match sch {
        S::Str => s(rng.pick(STRS)),
        S::Int => i(*rng.pick(&[0, 1, -1, 50, 100, 9007199254740991, -9007199254740991, 1234567])),
        S::UInt => i(*rng.pick(&[0, 1, 50, 100, 9007199254740991, 604800000, 256])),
        S::Bool => J::Bool(rng.chance(1, 2)),
        S::Float => {
            if rng.chance(1, 2) {
                J::Float(0.5)
            } else {
                i(rng.range(0, 3))
            }
        }
        S::UserId => s(rng.pick(USERS)),
        S::EventId => s(rng.pick(EVENTS)),
        S::RoomId => s(rng.pick(ROOMS)),
        S::RoomAlias => s(rng.pick(ALIASES)),
        S::ServerName => s(rng.pick(SERVERS)),
        S::DeviceId => s(rng.pick(DEVICES)),
        S::Mxc => s(rng.pick(MXCS)),
        S::Url => s(rng.pick(URLS)),
        S::Base64 => s(rng.pick(B64)),
        S::KeyId => s(rng.pick(KEYIDS)),
        S::Ts => i(*rng.pick(&[0, 1432735824653, 1, 9007199254740991])),
        S::Enum(xs) => s(rng.pick(xs)),
        S::Const(x) => s(x),
        S::ConstInt(x) => i(*x),
        S::Obj(fs) => {
            let mut es = Vec::new();
            for f in fs {
                let present = f.req
                    || match mode {
                        Mode::Min => false,
                        Mode::Max => true,
                        Mode::Rand => rng.chance(1, 2),
                    };
                if present {
                    es.push((f.name.to_owned(), gen(rng, &f.s, mode)));
                }
            }
            J::Obj(es)
        }
        S::Arr(x) => {
            let n = match mode {
                Mode::Min => 0,
                Mode::Max => 2,
                Mode::Rand => rng.below(3),
            };
            arr((0..n).map(|_| gen(rng, x, mode)).collect())
        }
        S::ArrDistinct(x, key) => {
            let n = match mode {
                Mode::Min => 0,
                Mode::Max => 2,
                Mode::Rand => rng.below(3),
            };
            let mut out: Vec<J> = Vec::new();
            for _ in 0..n {
                let e = gen(rng, x, mode);
                if !out.iter().any(|o| o.get(key) == e.get(key)) {
                    out.push(e);
                }
            }
            arr(out)
        }
        S::Map(k, v) => {
            let n = match mode {
                Mode::Min => 0,
                Mode::Max => 2,
                Mode::Rand => rng.below(3),
            };
            let mut es: Vec<(String, J)> = Vec::new();
            for _ in 0..n {
                let key = match gen(rng, k, mode) {
                    J::Str(x) => x,
                    _ => "k".to_owned(),
                };
                if !es.iter().any(|(kk, _)| *kk == key) {
                    es.push((key, gen(rng, v, mode)));
                }
            }
            J::Obj(es)
        }
        S::OneOf(xs) => {
            let n = xs.len();
            let pick = match mode {
                Mode::Min => 0,
                _ => rng.below(n),
            };
            gen(rng, &xs[pick], mode)
        }
        S::NullOr(x) => {
            if mode != Mode::Min && rng.chance(1, 3) {
                J::Null
            } else {
                gen(rng, x, mode)
            }
        }
        S::Any => match rng.below(5) {
            0 => J::Null,
            1 => i(7),
            2 => s("any"),
            3 => arr(vec![i(1), s("two")]),
            _ => obj(vec![("k", s("v")), ("n", J::Null)]),
        },
    }
}

// ---- shared fragments ----

fn image_info() -> S {
    ob(vec![
        o("h", S::UInt),
        o("w", S::UInt),
        o("mimetype", S::Enum(&["image/png", "image/jpeg"])),
        o("size", S::UInt),
        o("thumbnail_url", S::Mxc),
        o("thumbnail_info", ob(vec![o("h", S::UInt), o("w", S::UInt), o("mimetype", S::Const("image/png")), o("size", S::UInt)])),
    ])
}

fn encrypted_file() -> S {
    ob(vec![
        r("url", S::Mxc),
        r("key", ob(vec![
            r("kty", S::Const("oct")),
            r("key_ops", S::Arr(Box::new(S::Enum(&["encrypt", "decrypt"])))),
            r("alg", S::Const("A256CTR")),
            r("k", S::Const("aWF6-32KGYaC3A_FEUCk1Bt0JA37zP0wrStgmdCaW-0")),
            r("ext", S::Bool),
        ])),
        r("iv", S::Const("w+sE15fzSc0AAAAAAAAAAA")),
        r("hashes", ob(vec![r("sha256", S::Const("fdSLu/YkRx3Wyh3KQabP3rd6+SFiKg5lsJZQHtkSAYA"))])),
        r("v", S::Const("v2")),
    ])
}

fn reference() -> S {
    ob(vec![r("rel_type", S::Const("m.reference")), r("event_id", S::EventId)])
}

fn in_reply_to() -> S {
    ob(vec![r("event_id", S::EventId)])
}

/// `m.relates_to` of an `m.room.message` / `m.sticker` / `m.room.encrypted`.
fn message_relation() -> S {
    S::OneOf(vec![
        ob(vec![r("m.in_reply_to", in_reply_to())]),
        ob(vec![r("rel_type", S::Const("m.thread")), r("event_id", S::EventId), o("is_falling_back", S::Bool), o("m.in_reply_to", in_reply_to())]),
        ob(vec![r("rel_type", S::Const("m.reference")), r("event_id", S::EventId)]),
        ob(vec![r("rel_type", S::Const("org.example.custom_rel")), r("event_id", S::EventId), o("extra", S::Any)]),
    ])
}

fn mentions() -> S {
    ob(vec![o("user_ids", ar(S::UserId)), o("room", S::Bool)])
}

fn text_fields(formatted: bool) -> Vec<F> {
    if formatted {
        // `format` is required whenever `formatted_body` is present
        vec![r("body", S::Str), r("format", S::Const("org.matrix.custom.html")), r("formatted_body", S::Str)]
    } else {
        vec![r("body", S::Str)]
    }
}

fn msg(msgtype: &'static str, mut fs: Vec<F>) -> S {
    let mut v = vec![r("msgtype", S::Const(msgtype))];
    v.append(&mut fs);
    v.push(o("m.relates_to", message_relation()));
    v.push(o("m.mentions", mentions()));
    ob(v)
}

fn room_message() -> S {
    let file_info = ob(vec![o("mimetype", S::Const("application/pdf")), o("size", S::UInt), o("thumbnail_url", S::Mxc), o("thumbnail_info", ob(vec![o("h", S::UInt), o("w", S::UInt)]))]);
    let av_info = ob(vec![o("duration", S::UInt), o("mimetype", S::Const("audio/ogg")), o("size", S::UInt)]);
    let video_info = ob(vec![o("duration", S::UInt), o("h", S::UInt), o("w", S::UInt), o("mimetype", S::Const("video/mp4")), o("size", S::UInt), o("thumbnail_url", S::Mxc), o("thumbnail_info", ob(vec![o("h", S::UInt)]))]);
    S::OneOf(vec![
        msg("m.text", text_fields(false)),
        msg("m.text", text_fields(true)),
        msg("m.emote", text_fields(false)),
        msg("m.emote", text_fields(true)),
        msg("m.notice", text_fields(false)),
        msg("m.notice", text_fields(true)),
        msg("m.image", vec![r("body", S::Str), r("url", S::Mxc), o("info", image_info()), o("filename", S::Str)]),
        msg("m.image", vec![r("body", S::Str), r("file", encrypted_file()), o("info", image_info())]),
        msg("m.file", vec![r("body", S::Str), r("url", S::Mxc), o("filename", S::Str), o("info", file_info)]),
        msg("m.audio", vec![r("body", S::Str), r("url", S::Mxc), o("info", av_info)]),
        msg("m.video", vec![r("body", S::Str), r("url", S::Mxc), o("info", video_info)]),
        msg("m.location", vec![r("body", S::Str), r("geo_uri", S::Const("geo:52.1,4.3")), o("info", ob(vec![o("thumbnail_url", S::Mxc)]))]),
        msg("m.server_notice", vec![r("body", S::Str), r("server_notice_type", S::Enum(&["m.server_notice.usage_limit_reached"])), o("admin_contact", S::Str), o("limit_type", S::Enum(&["monthly_active_user"]))]),
        msg("m.key.verification.request", vec![r("body", S::Str), r("from_device", S::DeviceId), r("methods", ar(S::Enum(&["m.sas.v1", "m.qr_code.show.v1", "m.reciprocate.v1"]))), r("to", S::UserId)]),
        // custom msgtype carrying arbitrary fields and relations
        msg("org.example.custom_msgtype", vec![r("body", S::Str), o("custom_field", S::Any), o("n", S::Int)]),
        // edits
        ob(vec![
            r("msgtype", S::Const("m.text")),
            r("body", S::Str),
            r("m.new_content", ob(vec![r("msgtype", S::Const("m.text")), r("body", S::Str)])),
            r("m.relates_to", ob(vec![r("rel_type", S::Const("m.replace")), r("event_id", S::EventId)])),
        ]),
    ])
}

fn sdp_stream_metadata() -> S {
    map(S::Enum(&["stream1", "271828182845"]), ob(vec![r("purpose", S::Enum(&["m.usermedia", "m.screenshare"])), o("audio_muted", S::Bool), o("video_muted", S::Bool)]))
}

fn call(mut fs: Vec<F>) -> S {
    let mut v1 = vec![r("call_id", S::Enum(&["12345", "c-1"])), r("party_id", S::Enum(&["67890", "p"])), r("version", S::OneOf(vec![S::Const("1"), S::Const("1"), S::ConstInt(0), S::Enum(&["0", "2", "00", "1.1", "org.example.voip", ""])]))];
    v1.append(&mut fs);
    ob(v1)
}

fn sas_methods() -> S {
    ar(S::Enum(&["m.sas.v1", "m.qr_code.show.v1", "m.qr_code.scan.v1", "m.reciprocate.v1"]))
}

/// Key verification contents: `to_device` → `transaction_id`, in-room → `m.relates_to`.
fn verif(to_device: bool, mut fs: Vec<F>) -> S {
    if to_device {
        fs.push(r("transaction_id", S::Enum(&["S0meUniqueAndOpaqueString", "t1"])));
    } else {
        fs.push(r("m.relates_to", reference()));
    }
    ob(fs)
}

fn verif_start(to_device: bool) -> S {
    S::OneOf(vec![
        verif(to_device, vec![
            r("from_device", S::DeviceId),
            r("method", S::Const("m.sas.v1")),
            r("key_agreement_protocols", ar(S::Enum(&["curve25519-hkdf-sha256", "curve25519"]))),
            r("hashes", ar(S::Const("sha256"))),
            r("message_authentication_codes", ar(S::Enum(&["hkdf-hmac-sha256.v2", "hkdf-hmac-sha256"]))),
            r("short_authentication_string", ar(S::Enum(&["decimal", "emoji"]))),
        ]),
        verif(to_device, vec![r("from_device", S::DeviceId), r("method", S::Const("m.reciprocate.v1")), r("secret", S::Base64)]),
    ])
}

fn verif_accept(to_device: bool) -> S {
    verif(to_device, vec![
        r("method", S::Const("m.sas.v1")),
        r("key_agreement_protocol", S::Const("curve25519-hkdf-sha256")),
        r("hash", S::Const("sha256")),
        r("message_authentication_code", S::Const("hkdf-hmac-sha256.v2")),
        r("short_authentication_string", ar(S::Enum(&["decimal", "emoji"]))),
        r("commitment", S::Base64),
    ])
}

fn verif_cancel(to_device: bool) -> S {
    verif(to_device, vec![r("code", S::Enum(&["m.user", "m.timeout", "m.unknown_method", "m.key_mismatch", "org.example.custom_code"])), r("reason", S::Str)])
}

fn megolm_encrypted() -> S {
    ob(vec![
        r("algorithm", S::Const("m.megolm.v1.aes-sha2")),
        r("ciphertext", S::Const("AwgAEnACgAkLmt6qF84IK++J7UDH2Za1YVchHyprqTqsg")),
        r("session_id", S::Const("X3lUlvLELLYxeTx4yOVu6UDpasGEVO0Jbu+QFnm0cKQ")),
        // Deprecated by the specification ("Changed in v1.3: previously required"), but the code
        // under test still requires both: recorded as known finding K2; the pinned corpus line
        // `known-megolm-without-sender-key` exercises the omission.
        r("sender_key", S::Base64),
        r("device_id", S::DeviceId),
        o("m.relates_to", message_relation()),
    ])
}

fn olm_encrypted() -> S {
    ob(vec![
        r("algorithm", S::Const("m.olm.v1.curve25519-aes-sha2")),
        r("sender_key", S::Base64),
        r("ciphertext", map(S::Base64, ob(vec![r("body", S::Const("AwogGJJzMhf/S3GQFXAOrCZ3iKyGU5ZScVtjI0KypTYrW")), r("type", S::OneOf(vec![S::ConstInt(0), S::ConstInt(1)]))]))),
    ])
}

fn push_rule(id: S, with_conditions: bool, with_pattern: bool) -> S {
    let actions = ar(S::OneOf(vec![
        S::Const("notify"),
        ob(vec![r("set_tweak", S::Const("sound")), r("value", S::Const("default"))]),
        ob(vec![r("set_tweak", S::Const("highlight")), o("value", S::Bool)]),
    ]));
    let mut v = vec![r("rule_id", id), r("default", S::Bool), r("enabled", S::Bool), r("actions", actions)];
    if with_conditions {
        v.push(r("conditions", ar(S::OneOf(vec![
            ob(vec![r("kind", S::Const("event_match")), r("key", S::Const("content.body")), r("pattern", S::Const("a*b"))]),
            ob(vec![r("kind", S::Const("contains_display_name"))]),
            ob(vec![r("kind", S::Const("room_member_count")), r("is", S::Enum(&["2", ">=3", "<10"]))]),
            ob(vec![r("kind", S::Const("sender_notification_permission")), r("key", S::Const("room"))]),
            ob(vec![r("kind", S::Const("event_property_is")), r("key", S::Const("content.x")), r("value", S::Bool)]),
        ]))));
    }
    if with_pattern {
        v.push(r("pattern", S::Enum(&["alice", "a*b?"])));
    }
    ob(v)
}

fn rule_ids() -> S {
    S::Enum(&[".m.rule.master", ".m.rule.contains_user_name", "custom_rule", "my.rule"])
}

pub struct TypeSchema {
    pub kind: &'static str,
    pub ty: &'static str,
    pub content: S,
    /// schema of `state_key` (state kinds only)
    pub state_key: S,
    /// the content is itself a map (an added key would be an entry, not an unknown field)
    pub map_shaped: bool,
}

fn t(kind: &'static str, ty: &'static str, content: S) -> TypeSchema {
    TypeSchema { kind, ty, content, state_key: S::Const(""), map_shaped: false }
}

fn st(ty: &'static str, state_key: S, content: S) -> TypeSchema {
    TypeSchema { kind: "state", ty, content, state_key, map_shaped: false }
}

pub fn all_schemas() -> Vec<TypeSchema> {
    let policy = || ob(vec![r("entity", S::Enum(&["@alice*:example.org", "*.evil.example", "#*:example.org"])), r("reason", S::Str), r("recommendation", S::Enum(&["m.ban", "org.example.custom"]))]);
    let empty = || S::Const("");
    let mut v = vec![
        // ---- state ----
        st("m.policy.rule.room", S::Enum(&["rule:#*:example.org", ""]), policy()),
        st("m.policy.rule.server", S::Enum(&["rule:*.evil.example"]), policy()),
        st("m.policy.rule.user", S::Enum(&["rule:@alice*:example.org"]), policy()),
        st("m.room.aliases", S::ServerName, ob(vec![r("aliases", ar(S::RoomAlias))])),
        st("m.room.avatar", empty(), ob(vec![o("info", image_info()), o("url", S::Mxc)])),
        st("m.room.canonical_alias", empty(), ob(vec![o("alias", S::RoomAlias), o("alt_aliases", ar(S::RoomAlias))])),
        st("m.room.create", empty(), ob(vec![
            o("creator", S::UserId),
            o("m.federate", S::Bool),
            o("room_version", S::Enum(&["1", "6", "9", "10", "11", "org.example.custom"])),
            o("predecessor", ob(vec![r("room_id", S::RoomId), r("event_id", S::EventId)])),
            o("type", S::Enum(&["m.space", "org.example.custom"])),
        ])),
        st("m.room.encryption", empty(), ob(vec![r("algorithm", S::Enum(&["m.megolm.v1.aes-sha2", "org.example.custom"])), o("rotation_period_ms", S::UInt), o("rotation_period_msgs", S::UInt)])),
        st("m.room.guest_access", empty(), ob(vec![r("guest_access", S::Enum(&["can_join", "forbidden", "org.example.custom"]))])),
        st("m.room.history_visibility", empty(), ob(vec![r("history_visibility", S::Enum(&["invited", "joined", "shared", "world_readable"]))])),
        st("m.room.join_rules", empty(), S::OneOf(vec![
            ob(vec![r("join_rule", S::Enum(&["public", "knock", "invite", "private"]))]),
            ob(vec![r("join_rule", S::Enum(&["restricted", "knock_restricted"])), o("allow", ar(S::OneOf(vec![
                ob(vec![r("type", S::Const("m.room_membership")), r("room_id", S::RoomId)]),
                ob(vec![r("type", S::Const("org.example.custom_allow")), o("x", S::Any)]),
            ])))]),
        ])),
        st("m.room.member", S::UserId, ob(vec![
            r("membership", S::Enum(&["invite", "join", "knock", "leave", "ban"])),
            o("avatar_url", S::Mxc),
            o("displayname", S::NullOr(Box::new(S::Str))),
            o("is_direct", S::Bool),
            o("join_authorised_via_users_server", S::UserId),
            o("reason", S::Str),
            o("third_party_invite", ob(vec![
                r("display_name", S::Str),
                r("signed", ob(vec![r("mxid", S::UserId), r("signatures", map(S::ServerName, map(S::KeyId, S::Base64))), r("token", S::Str)])),
            ])),
        ])),
        st("m.room.name", empty(), ob(vec![r("name", S::Str)])),
        st("m.room.pinned_events", empty(), ob(vec![r("pinned", ar(S::EventId))])),
        st("m.room.power_levels", empty(), ob(vec![
            o("ban", S::Int),
            o("events", map(S::Enum(&["m.room.name", "m.room.power_levels", "org.example.custom"]), S::Int)),
            o("events_default", S::Int),
            o("invite", S::Int),
            o("kick", S::Int),
            o("notifications", ob(vec![o("room", S::Int)])),
            o("redact", S::Int),
            o("state_default", S::Int),
            o("users", map(S::UserId, S::Int)),
            o("users_default", S::Int),
        ])),
        st("m.room.server_acl", empty(), ob(vec![o("allow", ar(S::Enum(&["*", "*.example.org"]))), o("allow_ip_literals", S::Bool), o("deny", ar(S::Enum(&["evil.example", "*.evil.example"])))])),
        st("m.room.third_party_invite", S::Enum(&["pc98", "tok"]), ob(vec![
            r("display_name", S::Str),
            r("key_validity_url", S::Url),
            r("public_key", S::Base64),
            o("public_keys", ar(ob(vec![o("key_validity_url", S::Url), r("public_key", S::Base64)]))),
        ])),
        st("m.room.tombstone", empty(), ob(vec![r("body", S::Str), r("replacement_room", S::RoomId)])),
        st("m.room.topic", empty(), ob(vec![r("topic", S::Str)])),
        st("m.space.child", S::RoomId, ob(vec![
            o("order", S::Enum(&["a", "lexicographically"])),
            o("suggested", S::Bool),
            // "when not present … the child room is not considered part of the space": optional in the
            // specification, required by the code: known finding K1 (pinned corpus lines)
            r("via", ar(S::ServerName)),
        ])),
        st("m.space.parent", S::RoomId, ob(vec![o("canonical", S::Bool), r("via", ar(S::ServerName))])),
        // ---- message-like ----
        t("messageLike", "m.call.invite", call(vec![
            r("lifetime", S::UInt),
            r("offer", ob(vec![r("type", S::Const("offer")), r("sdp", S::Str)])),
            o("invitee", S::UserId),
            o("sdp_stream_metadata", sdp_stream_metadata()),
        ])),
        t("messageLike", "m.call.candidates", call(vec![r("candidates", ar(ob(vec![r("candidate", S::Str), o("sdpMid", S::Str), o("sdpMLineIndex", S::UInt)])))])),
        t("messageLike", "m.call.answer", call(vec![r("answer", ob(vec![r("type", S::Const("answer")), r("sdp", S::Str)])), o("sdp_stream_metadata", sdp_stream_metadata())])),
        t("messageLike", "m.call.hangup", call(vec![o("reason", S::Enum(&["ice_failed", "invite_timeout", "user_hangup", "user_media_failed", "user_busy", "unknown_error", "ice_timeout"]))])),
        t("messageLike", "m.call.select_answer", call(vec![r("selected_party_id", S::Str)])),
        t("messageLike", "m.call.reject", call(vec![])),
        t("messageLike", "m.call.negotiate", call(vec![
            r("lifetime", S::UInt),
            r("description", ob(vec![r("type", S::Enum(&["offer", "answer"])), r("sdp", S::Str)])),
            o("sdp_stream_metadata", sdp_stream_metadata()),
        ])),
        t("messageLike", "m.call.sdp_stream_metadata_changed", call(vec![r("sdp_stream_metadata", sdp_stream_metadata())])),
        t("messageLike", "m.key.verification.ready", verif(false, vec![r("from_device", S::DeviceId), r("methods", sas_methods())])),
        t("messageLike", "m.key.verification.start", verif_start(false)),
        t("messageLike", "m.key.verification.cancel", verif_cancel(false)),
        t("messageLike", "m.key.verification.accept", verif_accept(false)),
        t("messageLike", "m.key.verification.key", verif(false, vec![r("key", S::Base64)])),
        t("messageLike", "m.key.verification.mac", verif(false, vec![r("mac", map(S::KeyId, S::Base64)), r("keys", S::Base64)])),
        t("messageLike", "m.key.verification.done", verif(false, vec![])),
        t("messageLike", "m.reaction", ob(vec![r("m.relates_to", ob(vec![r("rel_type", S::Const("m.annotation")), r("event_id", S::EventId), r("key", S::Enum(&["👍", "key"]))]))])),
        t("messageLike", "m.room.encrypted", S::OneOf(vec![megolm_encrypted(), olm_encrypted()])),
        t("messageLike", "m.room.message", room_message()),
        t("messageLike", "m.room.redaction", ob(vec![o("redacts", S::EventId), o("reason", S::Str)])),
        t("messageLike", "m.sticker", ob(vec![r("body", S::Str), r("info", image_info()), r("url", S::Mxc), o("m.relates_to", message_relation())])),
        // ---- ephemeral ----
        t("ephemeralRoom", "m.receipt", map(S::EventId, map(S::Enum(&["m.read", "m.read.private", "org.example.custom_receipt"]), map(S::UserId, ob(vec![o("ts", S::Ts), o("thread_id", S::Enum(&["main", "$thread_root:example.org"]))]))))),
        t("ephemeralRoom", "m.typing", ob(vec![r("user_ids", ar(S::UserId))])),
        // ---- global account data ----
        t("globalAccountData", "m.direct", map(S::UserId, ar(S::RoomId))),
        t("globalAccountData", "m.identity_server", ob(vec![o("base_url", S::NullOr(Box::new(S::Url)))])),
        t("globalAccountData", "m.ignored_user_list", ob(vec![r("ignored_users", map(S::UserId, ob(vec![])))])),
        t("globalAccountData", "m.push_rules", ob(vec![r("global", ob(vec![
            o("override", S::ArrDistinct(Box::new(push_rule(rule_ids(), true, false)), "rule_id")),
            o("content", S::ArrDistinct(Box::new(push_rule(rule_ids(), false, true)), "rule_id")),
            o("room", S::ArrDistinct(Box::new(push_rule(S::RoomId, false, false)), "rule_id")),
            o("sender", S::ArrDistinct(Box::new(push_rule(S::UserId, false, false)), "rule_id")),
            o("underride", S::ArrDistinct(Box::new(push_rule(rule_ids(), true, false)), "rule_id")),
        ]))])),
        t("globalAccountData", "m.secret_storage.default_key", ob(vec![r("key", S::Str)])),
        t("globalAccountData", "m.secret_storage.key.*", ob(vec![
            o("name", S::Str),
            r("algorithm", S::Const("m.secret_storage.v1.aes-hmac-sha2")),
            o("iv", S::Base64),
            o("mac", S::Base64),
            o("passphrase", ob(vec![r("algorithm", S::Const("m.pbkdf2")), r("salt", S::Str), r("iterations", S::UInt), o("bits", S::UInt)])),
        ])),
        // ---- room account data ----
        t("roomAccountData", "m.fully_read", ob(vec![r("event_id", S::EventId)])),
        t("roomAccountData", "m.tag", ob(vec![r("tags", map(S::Enum(&["m.favourite", "m.lowpriority", "m.server_notice", "u.work", "org.example.custom"]), ob(vec![o("order", S::Float)])))])),
        t("roomAccountData", "m.marked_unread", ob(vec![r("unread", S::Bool)])),
        // ---- to-device ----
        t("toDevice", "m.dummy", ob(vec![])),
        t("toDevice", "m.room_key", ob(vec![r("algorithm", S::Const("m.megolm.v1.aes-sha2")), r("room_id", S::RoomId), r("session_id", S::Str), r("session_key", S::Str)])),
        t("toDevice", "m.room_key_request", S::OneOf(vec![
            ob(vec![
                r("action", S::Const("request")),
                r("body", ob(vec![r("algorithm", S::Const("m.megolm.v1.aes-sha2")), r("room_id", S::RoomId), r("session_id", S::Str),
                    // deprecated and optional since v1.3, still required by the code: known finding K3
                    r("sender_key", S::Base64)])),
                r("requesting_device_id", S::DeviceId),
                r("request_id", S::Str),
            ]),
            ob(vec![r("action", S::Const("request_cancellation")), r("requesting_device_id", S::DeviceId), r("request_id", S::Str)]),
        ])),
        t("toDevice", "m.forwarded_room_key", ob(vec![
            r("algorithm", S::Const("m.megolm.v1.aes-sha2")),
            r("room_id", S::RoomId),
            r("sender_key", S::Base64),
            r("session_id", S::Str),
            r("session_key", S::Str),
            r("sender_claimed_ed25519_key", S::Base64),
            r("forwarding_curve25519_key_chain", ar(S::Base64)),
            o("withheld", ob(vec![o("code", S::Const("m.unverified")), o("reason", S::Str)])),
        ])),
        t("toDevice", "m.key.verification.request", ob(vec![r("from_device", S::DeviceId), r("methods", sas_methods()), r("timestamp", S::Ts), r("transaction_id", S::Const("S0meUniqueAndOpaqueString"))])),
        t("toDevice", "m.key.verification.ready", verif(true, vec![r("from_device", S::DeviceId), r("methods", sas_methods())])),
        t("toDevice", "m.key.verification.start", verif_start(true)),
        t("toDevice", "m.key.verification.cancel", verif_cancel(true)),
        t("toDevice", "m.key.verification.accept", verif_accept(true)),
        t("toDevice", "m.key.verification.key", verif(true, vec![r("key", S::Base64)])),
        t("toDevice", "m.key.verification.mac", verif(true, vec![r("mac", map(S::KeyId, S::Base64)), r("keys", S::Base64)])),
        t("toDevice", "m.key.verification.done", verif(true, vec![])),
        t("toDevice", "m.room.encrypted", olm_encrypted()),
        t("toDevice", "m.secret.request", S::OneOf(vec![
            ob(vec![r("action", S::Const("request")), r("name", S::Enum(&["m.cross_signing.master", "m.megolm_backup.v1", "org.example.custom"])), r("requesting_device_id", S::DeviceId), r("request_id", S::Str)]),
            ob(vec![r("action", S::Const("request_cancellation")), r("requesting_device_id", S::DeviceId), r("request_id", S::Str)]),
        ])),
        t("toDevice", "m.secret.send", ob(vec![r("request_id", S::Str), r("secret", S::Str)])),
    ];
    for ts in v.iter_mut() {
        if matches!(ts.ty, "m.direct" | "m.receipt") {
            ts.map_shaped = true;
        }
    }
    v
}
