//! C01 — canonical JSON is the spec's unique, order-independent, lossless encoding.
//!
//! Requests (the request line is everything `run` looks at, so `replay` reproduces a case):
//!   `c01.canon <k> s<hex text_1> … s<hex text_k> <tree>`
//!       k JSON texts that denote the same JSON value (different key order, whitespace, escape
//!       spellings, injected earlier duplicates of keys) and the value tree of text_1 in token
//!       form (objects as pairs in text order, duplicates included, numbers `i<decimal>` where
//!       serde_json classifies the literal as an i64/u64 integer and `x` otherwise).
//!       → `ok s<hex of the canonical bytes>` / `err`
//!   `c01.sig s<hex text> <tree>`   (tree is an object)
//!       → `ok s<hex>` / `err`: `try_from_json_map` then `ruma_signatures::canonical_json`.
//!
//! The Lean driver reads only the tree (it also re-reads text_1 with its own JSON text reader as
//! a cross-check that the generator's tree is what the text says).
use std::collections::HashMap;

use h_lib::{
    h_util::{hex, unhex_str},
    Outcome, Req, Rng,
};
use ruma_common::{
    canonical_json::{to_canonical_value, try_from_json_map},
    CanonicalJsonValue,
};
use serde_json::Value;

// ------------------------------------------------------------------------------------------
// value trees
// ------------------------------------------------------------------------------------------

#[derive(Clone, Debug, PartialEq)]
struct Num {
    /// The literal as written in every rendering.
    text: String,
    /// `Some(n)` iff the literal is a plain integer (no fraction, exponent, not `-0`) that fits
    /// i64 or u64 — what serde_json's number classification turns into an integer `Number`.
    int: Option<i128>,
}

#[derive(Clone, Debug, PartialEq)]
enum T {
    Null,
    Bool(bool),
    Num(Num),
    Str(String),
    Arr(Vec<T>),
    Obj(Vec<(String, T)>),
}

const MAX_SAFE: i128 = 9007199254740991;

fn num_int(n: i128) -> Num {
    let fits = n >= i64::MIN as i128 && n <= u64::MAX as i128;
    Num { text: n.to_string(), int: if fits { Some(n) } else { None } }
}

fn num_other(text: &str) -> Num {
    Num { text: text.to_owned(), int: None }
}

const FIXED_STRS: &[&str] = &[
    "", "a", "b", "ab", "abc", "A", "a b", "é", "e\u{301}", "日", "本", "日本", "\u{7f}", "\u{0}",
    "\u{1f}", "\n", "\"", "\\", "/", "\u{d7ff}", "\u{e000}", "\u{ffff}", "\u{10000}", "\u{10ffff}",
    "a\u{ffff}", "a\u{10000}", "a\u{e000}", "a\u{d7ff}", "\u{ffff}a", "\u{10000}a", "ab\u{0}",
    "a\u{7f}", "a\u{80}", "signatures", "unsigned", "content", "type", "hashes", "\u{1f600}",
    "\u{fffd}", "\u{feff}", "\u{7ff}", "\u{800}", "\u{20}", "\u{1f}\u{20}", "~", "\u{80}",
];

const CHAR_POOL: &[u32] = &[
    0x61, 0x62, 0x41, 0x7a, 0x30, 0x20, 0x22, 0x5c, 0x2f, 0x7e, 0x7f, 0x80, 0xe9, 0x301, 0x7ff,
    0x800, 0x65e5, 0x672c, 0xd7ff, 0xe000, 0xfffd, 0xffff, 0x10000, 0x1f600, 0x10ffff, 0xfffff,
    0x100000,
];

fn gen_char(rng: &mut Rng) -> char {
    let cp = match rng.below(8) {
        0 | 1 => rng.below(0x20) as u32,           // every C0 control
        2 => 0x20 + rng.below(0x60) as u32,        // printable ASCII and DEL
        _ => *rng.pick(CHAR_POOL),
    };
    char::from_u32(cp).expect("pool holds scalar values only")
}

fn gen_str(rng: &mut Rng) -> String {
    if rng.chance(1, 2) {
        (*rng.pick(FIXED_STRS)).to_owned()
    } else {
        // shared prefixes: optionally start from a pool string
        let mut s = if rng.chance(1, 3) { (*rng.pick(FIXED_STRS)).to_owned() } else { String::new() };
        for _ in 0..rng.below(4) {
            s.push(gen_char(rng));
        }
        s
    }
}

/// `dirty`: numbers that canonical JSON cannot represent are allowed.
fn gen_num(rng: &mut Rng, dirty: bool) -> Num {
    if !dirty {
        return match rng.below(6) {
            0 => num_int(*rng.pick(&[MAX_SAFE, -MAX_SAFE, MAX_SAFE - 1, -MAX_SAFE + 1, MAX_SAFE - 2, -MAX_SAFE + 2])),
            1 => num_int(*rng.pick(&[0, 1, -1, 10, 100, 255, 256, 65535, 4294967296, -4294967296])),
            _ => num_int(rng.range(-1000, 1000) as i128),
        };
    }
    match rng.below(4) {
        0 => {
            let d = rng.range(-2, 2) as i128;
            let s = if rng.chance(1, 2) { 1 } else { -1 };
            num_int(s * (MAX_SAFE + d))
        }
        1 => num_int(*rng.pick(&[
            (1i128 << 63) - 1,
            1i128 << 63,
            -(1i128 << 63),
            -(1i128 << 63) - 1,
            (1i128 << 64) - 1,
            1i128 << 64,
            (1i128 << 64) + 1,
            1_000_000_000_000_000_000_000_000_000_000,
            -1_000_000_000_000_000_000_000_000_000_000,
            1i128 << 53,
            -(1i128 << 53),
        ])),
        2 => num_other(*rng.pick(&[
            "-0", "-0.0", "0.0", "1.0", "1.5", "-1.5", "1E2", "1e2", "1e0", "0e0", "10e-1", "1.0E+2",
            "9007199254740993.0", "0.1", "2e-400", "1e308", "123456789012345678901234567890.5",
            "1e+2", "100e-2",
        ])),
        _ => num_int(rng.range(-1000, 1000) as i128),
    }
}

struct Ctx {
    dirty: bool,
    budget: i32,
}

fn gen_tree(rng: &mut Rng, depth: u32, cx: &mut Ctx, want_obj: bool) -> T {
    cx.budget -= 1;
    let k = if want_obj {
        9
    } else if depth == 0 || cx.budget <= 0 {
        rng.below(5)
    } else {
        rng.below(10)
    };
    match k {
        0 => match rng.below(3) {
            0 => T::Null,
            1 => T::Bool(true),
            _ => T::Bool(false),
        },
        1 | 2 => {
            let d = cx.dirty && rng.chance(1, 3);
            T::Num(gen_num(rng, d))
        }
        3 | 4 => T::Str(gen_str(rng)),
        5 | 6 => {
            let n = rng.below(4);
            T::Arr((0..n).map(|_| gen_tree(rng, depth.saturating_sub(1), cx, false)).collect())
        }
        _ => {
            let n = rng.below(6);
            let mut kvs: Vec<(String, T)> = Vec::new();
            for _ in 0..n {
                let key = gen_str(rng);
                if kvs.iter().any(|(k, _)| *k == key) {
                    continue;
                }
                kvs.push((key, gen_tree(rng, depth.saturating_sub(1), cx, false)));
            }
            T::Obj(kvs)
        }
    }
}

/// A chain of nested containers down to `depth`, with a leaf at the bottom.
fn gen_chain(rng: &mut Rng, depth: u32, cx: &mut Ctx) -> T {
    if depth == 0 {
        return gen_tree(rng, 0, cx, false);
    }
    let inner = gen_chain(rng, depth - 1, cx);
    if rng.chance(1, 2) {
        let mut v = vec![inner];
        if rng.chance(1, 2) {
            v.insert(0, gen_tree(rng, 0, cx, false));
        }
        T::Arr(v)
    } else {
        let mut kvs = vec![(gen_str(rng), inner)];
        let k2 = gen_str(rng);
        if k2 != kvs[0].0 {
            kvs.push((k2, gen_tree(rng, 0, cx, false)));
        }
        T::Obj(kvs)
    }
}

// ------------------------------------------------------------------------------------------
// renderings
// ------------------------------------------------------------------------------------------

#[derive(Clone, Copy)]
struct Style {
    ws: bool,
    esc: bool,
    shuffle: bool,
    dups: bool,
    dirty: bool,
}

fn ws(rng: &mut Rng, st: &Style, out: &mut String) {
    if st.ws && rng.chance(1, 2) {
        for _ in 0..1 + rng.below(2) {
            out.push(*rng.pick(&[' ', '\t', '\n', '\r']));
        }
    }
}

fn short_escape(c: char) -> Option<char> {
    Some(match c {
        '"' => '"',
        '\\' => '\\',
        '/' => '/',
        '\u{8}' => 'b',
        '\u{c}' => 'f',
        '\n' => 'n',
        '\r' => 'r',
        '\t' => 't',
        _ => return None,
    })
}

fn u_escape(rng: &mut Rng, unit: u16, random_case: bool, out: &mut String) {
    out.push_str("\\u");
    for d in format!("{unit:04x}").chars() {
        out.push(if random_case && rng.chance(1, 2) { d.to_ascii_uppercase() } else { d });
    }
}

fn render_str(rng: &mut Rng, s: &str, st: &Style, out: &mut String) {
    out.push('"');
    for c in s.chars() {
        let must = (c as u32) < 0x20 || c == '"' || c == '\\';
        if !st.esc {
            // the minimal spelling
            if must {
                match short_escape(c) {
                    Some(e) => {
                        out.push('\\');
                        out.push(e);
                    }
                    None => u_escape(rng, c as u16, false, out),
                }
            } else {
                out.push(c);
            }
            continue;
        }
        let choice = rng.below(4);
        if choice == 0 && !must {
            out.push(c);
        } else if choice <= 1 && short_escape(c).is_some() {
            out.push('\\');
            out.push(short_escape(c).unwrap());
        } else if choice <= 2 || must {
            let mut buf = [0u16; 2];
            for unit in c.encode_utf16(&mut buf).iter() {
                u_escape(rng, *unit, true, out);
            }
        } else {
            out.push(c);
        }
    }
    out.push('"');
}

fn stok(s: &str) -> String {
    format!("s{}", hex(s.as_bytes()))
}

/// Write one text of `t` into `text` and the value tree *of that text* (pairs in text order,
/// duplicates included) into `toks`.
fn render(rng: &mut Rng, t: &T, st: &Style, text: &mut String, toks: &mut String) {
    match t {
        T::Null => {
            text.push_str("null");
            toks.push('n');
        }
        T::Bool(b) => {
            text.push_str(if *b { "true" } else { "false" });
            toks.push(if *b { 't' } else { 'f' });
        }
        T::Num(n) => {
            text.push_str(&n.text);
            match n.int {
                Some(i) => toks.push_str(&format!("i{i}")),
                None => toks.push('x'),
            }
        }
        T::Str(s) => {
            render_str(rng, s, st, text);
            toks.push_str(&stok(s));
        }
        T::Arr(xs) => {
            text.push('[');
            toks.push_str(&format!("a{}", xs.len()));
            ws(rng, st, text);
            for (i, x) in xs.iter().enumerate() {
                if i > 0 {
                    text.push(',');
                    ws(rng, st, text);
                }
                toks.push(' ');
                render(rng, x, st, text, toks);
                ws(rng, st, text);
            }
            text.push(']');
        }
        T::Obj(kvs) => {
            let mut entries: Vec<(String, T)> = kvs.clone();
            if st.shuffle {
                rng.shuffle(&mut entries);
            }
            if st.dups && !entries.is_empty() {
                // earlier duplicates of existing keys; the real (last) one decides the value
                for _ in 0..rng.below(3) {
                    let j = rng.below(entries.len());
                    let key = entries[j].0.clone();
                    let mut cx = Ctx { dirty: st.dirty, budget: 4 };
                    let v = gen_tree(rng, 1, &mut cx, false);
                    let at = rng.below(j + 1);
                    entries.insert(at, (key, v));
                }
            }
            text.push('{');
            toks.push_str(&format!("o{}", entries.len()));
            ws(rng, st, text);
            for (i, (k, v)) in entries.iter().enumerate() {
                if i > 0 {
                    text.push(',');
                    ws(rng, st, text);
                }
                render_str(rng, k, st, text);
                ws(rng, st, text);
                text.push(':');
                ws(rng, st, text);
                toks.push(' ');
                toks.push_str(&stok(k));
                toks.push(' ');
                render(rng, v, st, text, toks);
                ws(rng, st, text);
            }
            text.push('}');
        }
    }
}

fn render_top(rng: &mut Rng, t: &T, st: &Style) -> (String, String) {
    let (mut text, mut toks) = (String::new(), String::new());
    ws(rng, st, &mut text);
    render(rng, t, st, &mut text, &mut toks);
    ws(rng, st, &mut text);
    (text, toks)
}

// ------------------------------------------------------------------------------------------
// reading the tree back from a request line
// ------------------------------------------------------------------------------------------

fn parse_tree(toks: &mut std::slice::Iter<'_, &str>) -> Option<T> {
    let t = *toks.next()?;
    if t.is_empty() {
        return None;
    }
    let (head, rest) = t.split_at(1);
    Some(match head {
        "n" if rest.is_empty() => T::Null,
        "t" if rest.is_empty() => T::Bool(true),
        "f" if rest.is_empty() => T::Bool(false),
        "x" if rest.is_empty() => T::Num(Num { text: String::new(), int: None }),
        "i" => T::Num(Num { text: rest.to_owned(), int: Some(rest.parse::<i128>().ok()?) }),
        "s" => T::Str(unhex_str(rest)?),
        "a" => {
            let n: usize = rest.parse().ok()?;
            let mut v = Vec::new();
            for _ in 0..n {
                v.push(parse_tree(toks)?);
            }
            T::Arr(v)
        }
        "o" => {
            let n: usize = rest.parse().ok()?;
            let mut v = Vec::new();
            for _ in 0..n {
                let k = unhex_str((*toks.next()?).strip_prefix('s')?)?;
                v.push((k, parse_tree(toks)?));
            }
            T::Obj(v)
        }
        _ => return None,
    })
}

/// The JSON value a text with these entries denotes: a later duplicate replaces an earlier one.
fn last_wins(t: &T) -> T {
    match t {
        T::Arr(xs) => T::Arr(xs.iter().map(last_wins).collect()),
        T::Obj(kvs) => {
            let mut out: Vec<(String, T)> = Vec::new();
            for (k, v) in kvs {
                let v = last_wins(v);
                match out.iter_mut().find(|(k2, _)| k2 == k) {
                    Some(e) => e.1 = v,
                    None => out.push((k.clone(), v)),
                }
            }
            T::Obj(out)
        }
        other => other.clone(),
    }
}

fn collect_nums(t: &T, ints: &mut Vec<i128>, bad: &mut bool) {
    match t {
        T::Num(n) => match n.int {
            Some(i) if (-MAX_SAFE..=MAX_SAFE).contains(&i) => ints.push(i),
            _ => *bad = true,
        },
        T::Arr(xs) => xs.iter().for_each(|x| collect_nums(x, ints, bad)),
        T::Obj(kvs) => kvs.iter().for_each(|(_, x)| collect_nums(x, ints, bad)),
        _ => {}
    }
}

// ------------------------------------------------------------------------------------------
// T3: an independent scanner for the Matrix canonical JSON grammar
// ------------------------------------------------------------------------------------------

struct Scan<'a> {
    s: &'a [char],
    i: usize,
    ints: Vec<i128>,
    top_keys: Vec<String>,
}

impl Scan<'_> {
    fn peek(&self) -> Option<char> {
        self.s.get(self.i).copied()
    }
    fn eat(&mut self, c: char) -> Result<(), String> {
        if self.peek() == Some(c) {
            self.i += 1;
            Ok(())
        } else {
            Err(format!("expected {c:?} at char {}", self.i))
        }
    }
    fn lit(&mut self, w: &str) -> Result<(), String> {
        for c in w.chars() {
            self.eat(c)?;
        }
        Ok(())
    }
    /// Returns the code points of the string.
    fn string(&mut self) -> Result<Vec<u32>, String> {
        self.eat('"')?;
        let mut out = Vec::new();
        loop {
            let c = self.peek().ok_or("unterminated string")?;
            self.i += 1;
            match c {
                '"' => return Ok(out),
                '\\' => {
                    let e = self.peek().ok_or("unterminated escape")?;
                    self.i += 1;
                    let cp = match e {
                        '"' => 0x22,
                        '\\' => 0x5c,
                        'b' => 8,
                        'f' => 12,
                        'n' => 10,
                        'r' => 13,
                        't' => 9,
                        'u' => {
                            let mut v = 0u32;
                            for _ in 0..4 {
                                let h = self.peek().ok_or("short \\u escape")?;
                                self.i += 1;
                                let d = match h {
                                    '0'..='9' => h as u32 - '0' as u32,
                                    'a'..='f' => h as u32 - 'a' as u32 + 10,
                                    _ => return Err(format!("non-lower-case-hex digit {h:?} in \\u escape")),
                                };
                                v = v * 16 + d;
                            }
                            if v >= 0x20 {
                                return Err(format!("U+{v:04X} escaped although it may be written raw"));
                            }
                            if matches!(v, 8 | 9 | 10 | 12 | 13) {
                                return Err(format!("U+{v:04X} escaped in long form"));
                            }
                            v
                        }
                        other => return Err(format!("escape \\{other} is not allowed in canonical JSON")),
                    };
                    out.push(cp);
                }
                c if (c as u32) < 0x20 => return Err(format!("raw control U+{:04X} in string", c as u32)),
                c => out.push(c as u32),
            }
        }
    }
    fn value(&mut self, depth: usize) -> Result<T, String> {
        let to_string = |k: &[u32]| -> String { k.iter().map(|c| char::from_u32(*c).unwrap_or('\u{fffd}')).collect() };
        match self.peek().ok_or("unexpected end")? {
            'n' => self.lit("null").map(|_| T::Null),
            't' => self.lit("true").map(|_| T::Bool(true)),
            'f' => self.lit("false").map(|_| T::Bool(false)),
            '"' => self.string().map(|s| T::Str(to_string(&s))),
            '[' => {
                self.i += 1;
                let mut xs = Vec::new();
                if self.peek() == Some(']') {
                    self.i += 1;
                    return Ok(T::Arr(xs));
                }
                loop {
                    xs.push(self.value(depth + 1)?);
                    match self.peek() {
                        Some(',') => self.i += 1,
                        Some(']') => {
                            self.i += 1;
                            return Ok(T::Arr(xs));
                        }
                        other => return Err(format!("unexpected {other:?} in array at char {}", self.i)),
                    }
                }
            }
            '{' => {
                self.i += 1;
                let mut kvs: Vec<(String, T)> = Vec::new();
                if self.peek() == Some('}') {
                    self.i += 1;
                    return Ok(T::Obj(kvs));
                }
                let mut prev: Option<Vec<u32>> = None;
                loop {
                    let k = self.string()?;
                    if let Some(p) = &prev {
                        // lexicographic comparison of code point sequences
                        if !(p < &k) {
                            return Err(format!("keys not strictly ascending by code point: {p:x?} then {k:x?}"));
                        }
                    }
                    if depth == 0 {
                        self.top_keys.push(to_string(&k));
                    }
                    let key = to_string(&k);
                    prev = Some(k);
                    self.eat(':')?;
                    let v = self.value(depth + 1)?;
                    kvs.push((key, v));
                    match self.peek() {
                        Some(',') => self.i += 1,
                        Some('}') => {
                            self.i += 1;
                            return Ok(T::Obj(kvs));
                        }
                        other => return Err(format!("unexpected {other:?} in object at char {}", self.i)),
                    }
                }
            }
            '-' | '0'..='9' => {
                let start = self.i;
                if self.peek() == Some('-') {
                    self.i += 1;
                }
                let dstart = self.i;
                while matches!(self.peek(), Some('0'..='9')) {
                    self.i += 1;
                }
                let digits: String = self.s[dstart..self.i].iter().collect();
                let all: String = self.s[start..self.i].iter().collect();
                if digits.is_empty() || (digits.len() > 1 && digits.starts_with('0')) || all == "-0" {
                    return Err(format!("number {all:?} is not in canonical form"));
                }
                let v: i128 = all.parse().map_err(|_| format!("number {all:?} too long"))?;
                if !(-MAX_SAFE..=MAX_SAFE).contains(&v) {
                    return Err(format!("number {all} outside ±(2^53−1)"));
                }
                self.ints.push(v);
                Ok(T::Num(Num { text: all, int: Some(v) }))
            }
            other => Err(format!("unexpected {other:?} at char {} (whitespace or stray byte)", self.i)),
        }
    }
}

/// Check `out` against the canonical JSON grammar; returns (integers, top-level keys, the value).
fn validate_canonical(out: &str) -> Result<(Vec<i128>, Vec<String>, T), String> {
    let chars: Vec<char> = out.chars().collect();
    let mut sc = Scan { s: &chars, i: 0, ints: vec![], top_keys: vec![] };
    let v = sc.value(0)?;
    if sc.i != chars.len() {
        return Err(format!("trailing characters after value at char {}", sc.i));
    }
    Ok((sc.ints, sc.top_keys, v))
}

/// Equality of JSON values: objects as maps (order of entries irrelevant, keys distinct), arrays
/// by position, numbers by integer value.
fn same_value(a: &T, b: &T) -> bool {
    match (a, b) {
        (T::Null, T::Null) => true,
        (T::Bool(x), T::Bool(y)) => x == y,
        (T::Num(x), T::Num(y)) => x.int.is_some() && x.int == y.int,
        (T::Str(x), T::Str(y)) => x == y,
        (T::Arr(x), T::Arr(y)) => x.len() == y.len() && x.iter().zip(y).all(|(p, q)| same_value(p, q)),
        (T::Obj(x), T::Obj(y)) => {
            x.len() == y.len()
                && x.iter().all(|(k, v)| {
                    let mut hits = y.iter().filter(|(k2, _)| k2 == k);
                    match (hits.next(), hits.next()) {
                        (Some((_, w)), None) => same_value(v, w),
                        _ => false,
                    }
                })
        }
        _ => false,
    }
}

// ------------------------------------------------------------------------------------------
// running the implementation
// ------------------------------------------------------------------------------------------

type Res = Result<String, ()>;

/// Every entry point on one text. Returns (label, result) pairs and the parsed canonical value.
fn entry_points(text: &str) -> (Vec<(&'static str, Res)>, Option<CanonicalJsonValue>) {
    let mut out: Vec<(&'static str, Res)> = Vec::new();
    let parsed = serde_json::from_str::<CanonicalJsonValue>(text).ok();
    match &parsed {
        Some(v) => {
            out.push(("from_str+to_string", serde_json::to_string(v).map_err(|_| ())));
            out.push(("from_str+Display", Ok(v.to_string())));
            out.push(("from_str+Display{:#}", Ok(format!("{v:#}"))));
            // `Display` is documented as unaffected by any formatting parameters: width, fill,
            // alignment, precision, sign and zero flags must all give the same bytes
            out.push(("from_str+Display{:<40}", Ok(format!("{v:<40}"))));
            out.push(("from_str+Display{:*>64}", Ok(format!("{v:*>64}"))));
            out.push(("from_str+Display{:.3}", Ok(format!("{v:.3}"))));
            out.push(("from_str+Display{:^+#012.1}", Ok(format!("{v:^+#012.1}"))));
            out.push((
                "from_str+to_vec",
                serde_json::to_vec(v).map_err(|_| ()).and_then(|b| String::from_utf8(b).map_err(|_| ())),
            ));
        }
        None => out.push(("from_str", Err(()))),
    }
    match serde_json::from_str::<Value>(text) {
        Err(_) => out.push(("from_str::<Value>", Err(()))),
        Ok(val) => {
            out.push((
                "TryFrom<Value>",
                CanonicalJsonValue::try_from(val.clone()).map_err(|_| ()).map(|v| v.to_string()),
            ));
            out.push(("to_canonical_value", to_canonical_value(&val).map_err(|_| ()).map(|v| v.to_string())));
            if let Value::Object(map) = &val {
                out.push((
                    "try_from_json_map",
                    try_from_json_map(map.clone())
                        .map_err(|_| ())
                        .and_then(|o| serde_json::to_string(&o).map_err(|_| ())),
                ));
                let hm: HashMap<String, Value> = map.iter().map(|(k, v)| (k.clone(), v.clone())).collect();
                out.push(("to_canonical_value(HashMap)", to_canonical_value(&hm).map_err(|_| ()).map(|v| v.to_string())));
            }
        }
    }
    (out, parsed)
}

fn show(r: &Res) -> String {
    match r {
        Ok(s) => format!("ok s{}", hex(s.as_bytes())),
        Err(()) => "err".into(),
    }
}

fn run_canon(texts: &[String], tree: &T) -> Outcome {
    let mut t3: Vec<String> = Vec::new();
    let mut reference: Option<Res> = None;
    let mut first_value: Option<CanonicalJsonValue> = None;
    for (i, text) in texts.iter().enumerate() {
        let (results, parsed) = entry_points(text);
        if i == 0 {
            first_value = parsed;
        }
        for (label, r) in results {
            match &reference {
                None => reference = Some(r),
                Some(r0) => {
                    if *r0 != r {
                        t3.push(format!(
                            "output depends on more than the value: rendering 1 gives {} but {label} on rendering {} gives {}",
                            show(r0),
                            i + 1,
                            show(&r)
                        ));
                    }
                }
            }
        }
    }
    let reference = reference.expect("at least one text");
    // numbers: rejected iff not representable, never altered
    let value = last_wins(tree);
    let (mut ints, mut bad) = (Vec::new(), false);
    collect_nums(&value, &mut ints, &mut bad);
    match &reference {
        Err(()) => {
            if !bad {
                t3.push("a value with only representable numbers was rejected".into());
            }
        }
        Ok(out) => {
            if bad {
                t3.push("a fraction / exponent / -0 / out-of-range integer was accepted instead of rejected".into());
            }
            match validate_canonical(out) {
                Err(e) => t3.push(format!("output is not in canonical form: {e}")),
                Ok((mut got, _, out_value)) => {
                    got.sort();
                    ints.sort();
                    if got != ints && !bad {
                        t3.push("the integers of the output are not the integers of the input".into());
                    }
                    if !bad && !same_value(&value, &out_value) {
                        t3.push("the canonical output does not denote the JSON value of the input (something was dropped, added or altered)".into());
                    }
                }
            }
            // parsing it back gives an equal value, and the same bytes again
            match serde_json::from_str::<CanonicalJsonValue>(out) {
                Err(_) => t3.push("the canonical output does not parse back".into()),
                Ok(back) => {
                    if Some(&back) != first_value.as_ref() {
                        t3.push("parsing the canonical output back gives a different value".into());
                    }
                    if back.to_string() != *out {
                        t3.push("canonicalising the canonical output changes it".into());
                    }
                }
            }
        }
    }
    Outcome { imp: show(&reference), t3 }
}

fn run_sig(text: &str, tree: &T) -> Outcome {
    let mut t3 = Vec::new();
    let r: Res = match serde_json::from_str::<Value>(text) {
        Ok(Value::Object(map)) => match try_from_json_map(map) {
            Ok(obj) => match ruma_signatures::canonical_json(&obj) {
                Ok(s) => {
                    match validate_canonical(&s) {
                        Err(e) => t3.push(format!("canonical_json output is not in canonical form: {e}")),
                        Ok((_, keys, out_value)) => {
                            if keys.iter().any(|k| k == "signatures" || k == "unsigned") {
                                t3.push("canonical_json kept signatures/unsigned".into());
                            }
                            if let T::Obj(kvs) = last_wins(tree) {
                                let expect = T::Obj(
                                    kvs.into_iter().filter(|(k, _)| k != "signatures" && k != "unsigned").collect(),
                                );
                                if !same_value(&expect, &out_value) {
                                    t3.push("canonical_json output is not the input object without signatures/unsigned".into());
                                }
                            }
                        }
                    }
                    Ok(s)
                }
                Err(e) => {
                    // the object IS representable (try_from_json_map accepted it): dropping two keys and
                    // serialising it cannot fail, whatever its size
                    t3.push(format!("canonical_json refused a representable object ({} bytes of input): {e}", text.len()));
                    Err(())
                }
            },
            Err(_) => Err(()),
        },
        Ok(_) => return Outcome::bad(),
        Err(_) => Err(()),
    };
    Outcome { imp: show(&r), t3 }
}

pub fn run(req: &str) -> Outcome {
    let toks: Vec<&str> = req.split(' ').collect();
    let text_of = |t: &str| t.strip_prefix('s').and_then(unhex_str);
    match toks[0] {
        "c01.canon" => {
            let Some(k) = toks.get(1).and_then(|k| k.parse::<usize>().ok()) else { return Outcome::bad() };
            if k == 0 || toks.len() < 2 + k {
                return Outcome::bad();
            }
            let Some(texts) = toks[2..2 + k].iter().map(|t| text_of(t)).collect::<Option<Vec<String>>>() else {
                return Outcome::bad();
            };
            let mut it = toks[2 + k..].iter();
            let Some(tree) = parse_tree(&mut it) else { return Outcome::bad() };
            if it.next().is_some() {
                return Outcome::bad();
            }
            run_canon(&texts, &tree)
        }
        "c01.sig" => {
            let Some(text) = toks.get(1).and_then(|t| text_of(t)) else { return Outcome::bad() };
            let mut it = toks[2..].iter();
            match parse_tree(&mut it) {
                Some(tree @ T::Obj(_)) if it.next().is_none() => run_sig(&text, &tree),
                _ => Outcome::bad(),
            }
        }
        _ => Outcome::bad(),
    }
}

// ------------------------------------------------------------------------------------------
// generation
// ------------------------------------------------------------------------------------------

fn str_features(s: &str, f: &mut Feat) {
    for c in s.chars() {
        let cp = c as u32;
        if cp >= 0x10000 {
            f.astral = true;
        } else if cp >= 0x80 {
            f.bmp = true;
        }
        if cp < 0x20 || cp == 0x7f {
            f.ctrl = true;
        }
    }
}

fn features(t: &T, depth: u32, f: &mut Feat) {
    f.depth = f.depth.max(depth);
    match t {
        T::Num(n) => match n.int {
            None => f.nonint = true,
            Some(i) if i.abs() > MAX_SAFE => f.oob = true,
            Some(i) if i.abs() >= MAX_SAFE - 2 => f.bound = true,
            _ => {}
        },
        T::Str(s) => str_features(s, f),
        T::Arr(xs) => xs.iter().for_each(|x| features(x, depth + 1, f)),
        T::Obj(kvs) => {
            for (k, v) in kvs {
                str_features(k, f);
                features(v, depth + 1, f);
            }
        }
        _ => {}
    }
}

#[derive(Default)]
struct Feat {
    depth: u32,
    astral: bool,
    bmp: bool,
    ctrl: bool,
    nonint: bool,
    oob: bool,
    bound: bool,
}

impl Feat {
    /// First component: number class, duplicates, widest code point class; second: the rest.
    fn label(&self, dups: bool) -> (String, String) {
        let num = if self.nonint {
            "nonint"
        } else if self.oob {
            "oob"
        } else if self.bound {
            "bound"
        } else {
            "int"
        };
        let uni = if self.astral {
            "astral"
        } else if self.bmp {
            "bmp"
        } else {
            "ascii"
        };
        let a = format!("+{num}{}+{uni}", if dups { "+dup" } else { "" });
        let b = format!("{}{}", if self.ctrl { "ctrl" } else { "" }, if self.depth >= 4 { "deep" } else { "" });
        (a, b)
    }
}

const RENDERINGS: usize = 4;

fn case_for_tree(rng: &mut Rng, tree: &T, dirty: bool, tag: &str, out: &mut Vec<Req>) {
    let mut f = Feat::default();
    features(tree, 0, &mut f);
    let dups = rng.chance(1, 2);
    let mut texts = Vec::new();
    let mut first_toks = String::new();
    for i in 0..RENDERINGS {
        let st = match i {
            // rendering 1 carries the tree: text order as generated, duplicates, any spelling
            0 => Style { ws: rng.chance(1, 2), esc: rng.chance(1, 2), shuffle: false, dups, dirty },
            // one compact minimal rendering in a different order
            1 => Style { ws: false, esc: false, shuffle: true, dups: false, dirty },
            _ => Style { ws: true, esc: true, shuffle: true, dups, dirty },
        };
        let (text, toks) = render_top(rng, tree, &st);
        if i == 0 {
            first_toks = toks;
        }
        texts.push(text);
    }
    let hexes: Vec<String> = texts.iter().map(|t| stok(t)).collect();
    out.push(Req::new(
        format!("c01.canon {} {} {}", RENDERINGS, hexes.join(" "), first_toks),
        format!("canon{}.{tag}{}", f.label(dups).0, f.label(dups).1),
    ));
    if matches!(tree, T::Obj(_)) && rng.chance(1, 3) {
        let st = Style { ws: rng.chance(1, 2), esc: rng.chance(1, 2), shuffle: true, dups, dirty };
        let (text, toks) = render_top(rng, tree, &st);
        out.push(Req::new(format!("c01.sig {} {}", stok(&text), toks), format!("sig{}.{tag}{}", f.label(dups).0, f.label(dups).1)));
    }
}

fn s(x: &str) -> T {
    T::Str(x.to_owned())
}
fn i(n: i128) -> T {
    T::Num(num_int(n))
}
fn o(kvs: Vec<(&str, T)>) -> T {
    T::Obj(kvs.into_iter().map(|(k, v)| (k.to_owned(), v)).collect())
}

/// Hand-picked trees that every run includes (the cells the property's text names).
fn fixed_trees() -> Vec<(T, bool)> {
    let mut v: Vec<(T, bool)> = Vec::new();
    // astral vs BMP: UTF-16 order would put U+10000 (D800 DC00) before U+E000 and U+FFFF
    v.push((o(vec![("\u{10000}", i(1)), ("\u{ffff}", i(2)), ("\u{e000}", i(3)), ("\u{d7ff}", i(4)), ("\u{10ffff}", i(5))]), false));
    v.push((o(vec![("a\u{10000}", i(1)), ("a\u{ffff}", i(2)), ("a", i(3)), ("a\u{0}", i(4)), ("a\u{7f}", i(5)), ("a\u{80}", i(6))]), false));
    v.push((o(vec![("", i(0)), ("\u{0}", i(1)), ("\u{1f}", i(2)), (" ", i(3)), ("\"", i(4)), ("\\", i(5)), ("/", i(6)), ("\u{7f}", i(7))]), false));
    // every C0 control, in a key and in a value
    for c in 0u32..0x20 {
        let ch = char::from_u32(c).unwrap().to_string();
        v.push((o(vec![(ch.as_str(), s(&ch)), ("z", T::Arr(vec![s(&format!("x{ch}y"))]))]), false));
    }
    v.push((o(vec![("日", i(1)), ("本", i(2)), ("é", i(3)), ("e\u{301}", i(4)), ("e", i(5)), ("f", i(6))]), false));
    // integer boundary
    for d in -2i128..=2 {
        for sg in [1i128, -1] {
            v.push((o(vec![("n", i(sg * (MAX_SAFE + d)))]), true));
            v.push((T::Arr(vec![i(0), T::Arr(vec![o(vec![("deep", i(sg * (MAX_SAFE + d)))])])]), true));
        }
    }
    for n in [(1i128 << 63) - 1, 1i128 << 63, -(1i128 << 63), -(1i128 << 63) - 1, (1i128 << 64) - 1, 1i128 << 64] {
        v.push((o(vec![("n", i(n))]), true));
    }
    for t in ["-0", "-0.0", "0.0", "1.0", "1.5", "1E2", "1e2", "1e0", "10e-1", "9007199254740993.0", "1e400"] {
        v.push((o(vec![("n", T::Num(num_other(t)))]), true));
        v.push((T::Num(num_other(t)), true));
    }
    // canonical JSON has no size limit (the 65 535-byte limit belongs to event hashing): objects whose
    // canonical form is just below, at and above 64 KiB, with and without signatures/unsigned
    for len in [65_500usize, 65_536, 70_000] {
        let big = "x".repeat(len);
        v.push((o(vec![("body", s(&big)), ("a", i(1))]), false));
        v.push((o(vec![("body", s(&big)), ("signatures", o(vec![("h", o(vec![("ed25519:1", s("c2ln"))]))])), ("unsigned", o(vec![("age", i(1))]))]), false));
    }
    // the C1 controls and DEL are not escaped by canonical JSON (only the C0 controls, quote and backslash are)
    for c in [0x7fu32, 0x80, 0x85, 0x9f, 0xa0] {
        let ch = char::from_u32(c).unwrap().to_string();
        v.push((o(vec![(ch.as_str(), s(&ch)), ("z", T::Arr(vec![s(&format!("x{ch}y"))]))]), false));
    }
    // objects whose smallest keys are the ones signing strips
    v.push((o(vec![("signatures", o(vec![])), ("token", s("t")), ("usage", i(1)), ("user_id", s("@a:h"))]), false));
    v.push((o(vec![("unsigned", o(vec![("age", i(1))])), ("unsigned2", i(2)), ("日本", i(3))]), false));
    v.push((o(vec![("signatures", o(vec![])), ("unsigned", o(vec![]))]), false));
    // non-object top level values, empty containers, signatures/unsigned
    v.push((T::Null, false));
    v.push((T::Bool(true), false));
    v.push((i(0), false));
    v.push((s("a\u{1f600}\n"), false));
    v.push((T::Arr(vec![]), false));
    v.push((o(vec![]), false));
    v.push((o(vec![("signatures", o(vec![("h", o(vec![("ed25519:1", s("sig"))]))])), ("unsigned", o(vec![("age", i(3))])), ("a", T::Arr(vec![o(vec![]), T::Arr(vec![])]))]), false));
    v
}

fn gen(rng: &mut Rng, n: usize, _tier: &str) -> Vec<Req> {
    let mut reqs = Vec::new();
    for (t, dirty) in fixed_trees() {
        case_for_tree(rng, &t, dirty, "fixed", &mut reqs);
    }
    for _ in 0..n {
        let dirty = rng.chance(2, 5);
        let mut cx = Ctx { dirty, budget: 40 };
        let tree = match rng.below(10) {
            0 => gen_tree(rng, 3, &mut cx, false),
            1 => {
                let d = 3 + rng.below(4) as u32;
                gen_chain(rng, d, &mut cx)
            }
            _ => {
                let d = 1 + rng.below(6) as u32;
                gen_tree(rng, d, &mut cx, true)
            }
        };
        case_for_tree(rng, &tree, dirty, "rand", &mut reqs);
    }
    reqs
}

fn main() {
    h_lib::std_main(None, &gen, &run);
}
