//! C06 — state resolution is deterministic and independent of input and hash-map order.
//!
//! Requests (`R` = number of repetitions of the real call, ignored by the Lean side; `ord` steers
//! the iteration orders the Lean model uses, ignored by the implementation):
//!   `c06.resolve <R> <ver> <ord> J`   J as in C07
//!   `c06.topo <R> <ord> J`
//! The real function is called R times from several threads, every call with freshly built
//! HashMaps/HashSets (fresh `RandomState` keys, so iteration orders differ) and with the state-set
//! and auth-chain arguments permuted. T3: all results are equal; resolving one set, or n copies of
//! one set, returns that set. The answer compared with the model is the first result.
#[path = "../../h-c07/src/sr.rs"]
mod sr;

use std::collections::{HashMap, HashSet};

use h_lib::{h_util, Outcome, Req, Rng};
use ruma_common::OwnedEventId;

fn parse_one(toks: &[&str]) -> Option<serde_json::Value> {
    let mut it = toks.iter();
    let v = h_util::parse_tokens(&mut it)?;
    if it.next().is_some() {
        return None;
    }
    Some(v)
}

fn seed_of(req: &str) -> u64 {
    let mut h: u64 = 0xcbf2_9ce4_8422_2325;
    for b in req.as_bytes() {
        h ^= *b as u64;
        h = h.wrapping_mul(0x0000_0100_0000_01b3);
    }
    h
}

const THREADS: usize = 4;

/// One call of the real `resolve` on freshly built containers, arguments permuted by `rng`.
fn one_resolve(sc: &sr::Scenario, rng: &mut Rng) -> String {
    let rules = sr::rules_of(sc.ver);
    let mut evs = sc.events.clone();
    rng.shuffle(&mut evs);
    let store: sr::Store = evs.into_iter().map(|e| (e.id.clone(), e)).collect();
    let mut sets = sc.sets.clone();
    rng.shuffle(&mut sets);
    let maps: Vec<sr::SMap> = sets
        .iter()
        .map(|s| {
            let mut s = s.clone();
            rng.shuffle(&mut s);
            s.into_iter().map(|(t, k, i)| ((t.into(), k), i)).collect()
        })
        .collect();
    let mut chains = sc.chains.clone();
    rng.shuffle(&mut chains);
    let chain_sets: Vec<HashSet<OwnedEventId>> = chains
        .into_iter()
        .map(|mut c| {
            rng.shuffle(&mut c);
            c.into_iter().collect()
        })
        .collect();
    sr::show_state(&sr::run_resolve(&rules, &store, &maps, chain_sets))
}

fn repeat<T: Sync>(input: &T, reps: usize, seed: u64, f: impl Fn(&T, &mut Rng) -> String + Sync) -> Vec<String> {
    let per = reps.div_ceil(THREADS).max(1);
    let mut all = Vec::new();
    std::thread::scope(|s| {
        let hs: Vec<_> = (0..THREADS)
            .map(|t| {
                let f = &f;
                s.spawn(move || {
                    let mut out = Vec::new();
                    for i in 0..per {
                        let mut rng = Rng::new(seed ^ ((t as u64) << 32) ^ i as u64);
                        out.push(h_util::guarded(|| f(input, &mut rng)).unwrap_or_else(|_| "panic".into()));
                    }
                    out
                })
            })
            .collect();
        for h in hs {
            all.extend(h.join().unwrap_or_else(|_| vec!["panic".into()]));
        }
    });
    all
}

fn run(req: &str) -> Outcome {
    let toks: Vec<&str> = req.split(' ').collect();
    let Some(reps) = toks.get(1).and_then(|r| r.parse::<usize>().ok()) else { return Outcome::bad() };
    match toks[0] {
        "c06.resolve" => {
            let Some(sc) = toks.get(2..).and_then(sr::parse_resolve_args) else { return Outcome::bad() };
            let rules = sr::rules_of(sc.ver);
            let store = sc.store();
            let first = sr::show_state(&sr::run_resolve(&rules, &store, &sc.state_maps(), sc.chain_sets()));
            let mut o = Outcome::new(first.clone());
            let all = repeat(&sc, reps, seed_of(req), one_resolve);
            for (i, r) in all.iter().enumerate() {
                if *r != first {
                    o.t3.push(format!("call {i} of {} (fresh hash seeds, permuted state-set/auth-chain arguments, thread {}) returned a different state map than the first call: {} vs {}", all.len(), i / reps.div_ceil(THREADS).max(1), &r[..r.len().min(400)], &first[..first.len().min(400)]));
                    break;
                }
            }
            // "However often the resolution runs": a resolution must not leave anything behind that a
            // later resolution of ANOTHER room picks up. The same history with every user consistently
            // renamed (another creator, other members; same servers, same event IDs) is resolved in
            // this process right after the original, then the original again: the renamed room must
            // resolve to the renamed state map and the original to what it resolved to before.
            {
                let ren = sc.rename_users();
                let want = sr::show_state_renamed(&sr::run_resolve(&rules, &store, &sc.state_maps(), sc.chain_sets()));
                let got = sr::show_state(&sr::run_resolve(&rules, &ren.store(), &ren.state_maps(), ren.chain_sets()));
                if got != want {
                    o.t3.push(format!("the same history with users renamed (creator included), resolved after the original in the same process, does not resolve to the renamed state map: {} vs {}", &got[..got.len().min(400)], &want[..want.len().min(400)]));
                }
                let again = sr::show_state(&sr::run_resolve(&rules, &store, &sc.state_maps(), sc.chain_sets()));
                if again != first {
                    o.t3.push(format!("resolving the same inputs again after another room was resolved in between gave a different state map: {} vs {}", &again[..again.len().min(400)], &first[..first.len().min(400)]));
                }
            }
            // a single state set, and n identical ones, resolve to that set
            for (idx, set) in sc.state_maps().iter().enumerate() {
                let want = sr::show_state(&Ok(set.clone()));
                let chain = sc.chain_sets().get(idx).cloned().unwrap_or_default();
                let single = sr::show_state(&sr::run_resolve(&rules, &store, std::slice::from_ref(set), vec![chain.clone()]));
                if single != want {
                    o.t3.push(format!("resolving state set {idx} alone did not return it: {single} vs {want}"));
                }
                let many = vec![set.clone(), set.clone(), set.clone()];
                let ident = sr::show_state(&sr::run_resolve(&rules, &store, &many, vec![chain.clone(), chain.clone(), chain]));
                if ident != want {
                    o.t3.push(format!("resolving three copies of state set {idx} did not return it: {ident} vs {want}"));
                }
            }
            o
        }
        "c06.topo" => {
            let Some(v) = toks.get(3..).and_then(parse_one) else { return Outcome::bad() };
            let Some(case) = sr::TopoCase::parse(&v) else { return Outcome::bad() };
            let first = sr::show_ids(&sr::run_topo(&case.graph(), &case.keys()));
            let mut o = Outcome::new(first.clone());
            let all = repeat(&case, reps, seed_of(req), |c, rng| {
                // rebuild the maps in a shuffled insertion order with fresh hashers
                let mut nodes: Vec<_> = c.graph().into_iter().collect();
                rng.shuffle(&mut nodes);
                let g: HashMap<OwnedEventId, HashSet<OwnedEventId>> = nodes
                    .into_iter()
                    .map(|(n, es)| {
                        let mut es: Vec<_> = es.into_iter().collect();
                        rng.shuffle(&mut es);
                        (n, es.into_iter().collect())
                    })
                    .collect();
                sr::show_ids(&sr::run_topo(&g, &c.keys()))
            });
            for (i, r) in all.iter().enumerate() {
                if *r != first {
                    o.t3.push(format!("call {i} of {} (fresh hash seeds) returned a different order than the first call: {r} vs {first}", all.len()));
                    break;
                }
            }
            o
        }
        _ => Outcome::bad(),
    }
}

fn gen(rng: &mut Rng, n: usize, tier: &str) -> Vec<Req> {
    let thorough = tier == "thorough";
    let reps = if thorough { 64 } else { 8 };
    let mut out = Vec::new();
    for ver in [6u32, 11] {
        let sc = sr::f4_witness(ver);
        out.push(Req::new(format!("c06.resolve {reps} {ver} {} {}", rng.below(8), sc.payload()), "f4witness"));
    }
    for sc in sr::early_creator_cells() {
        out.push(Req::new(format!("c06.resolve {reps} {} {} {}", sc.ver, rng.below(8), sc.payload()), "earlycreator"));
    }
    for sc in sr::overlay_member_cells() {
        out.push(Req::new(format!("c06.resolve {reps} {} {} {}", sc.ver, rng.below(8), sc.payload()), "overlaymember"));
    }
    for sc in sr::same_sender_member_cells() {
        out.push(Req::new(format!("c06.resolve {reps} {} {} {}", sc.ver, rng.below(8), sc.payload()), "samesender"));
    }
    for i in 0..n / 2 {
        let wild = i % 4 == 3;
        let case = sr::gen_topo(rng, wild);
        out.push(Req::new(format!("c06.topo {reps} {} {}", rng.below(8), case.payload()), if wild { "topo-wild" } else { "topo" }));
    }
    let mut stats: std::collections::BTreeMap<&'static str, usize> = Default::default();
    for i in 0..n {
        let (sc, st) = sr::gen_room(rng, thorough && i % 3 == 0);
        for (k, v) in st {
            *stats.entry(k).or_default() += v;
        }
        out.push(Req::new(format!("c06.resolve {reps} {} {} {}", sc.ver, rng.below(8), sc.payload()), format!("room{}", sr::shape(&sc))));
    }
    for _ in 0..(n / 10).max(3) {
        let sc = sr::gen_overlay(rng);
        out.push(Req::new(format!("c06.resolve {reps} {} {} {}", sc.ver, rng.below(8), sc.payload()), format!("overlay{}", sr::shape(&sc))));
    }
    for _ in 0..(n / 10).max(3) {
        let sc = sr::gen_promotion(rng);
        out.push(Req::new(format!("c06.resolve {reps} {} {} {}", sc.ver, rng.below(8), sc.payload()), format!("promotion{}", sr::shape(&sc))));
    }
    for _ in 0..(n / 8).max(24) {
        let sc = sr::gen_sloppy_auth(rng);
        out.push(Req::new(format!("c06.resolve {reps} {} {} {}", sc.ver, rng.below(8), sc.payload()), format!("sloppy{}", sr::shape(&sc))));
    }
    eprintln!("generator statistics: {stats:?}");
    out
}

fn main() {
    h_lib::std_main(None, &gen, &run);
}
