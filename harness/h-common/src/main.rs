//! Harness binary for the properties anchored in ruma-common, ruma-identifiers-validation,
//! ruma-signatures and ruma-html. `h-common <prop> extract|gen|replay …`.
mod cj;
mod c04;

use h_util::{Args, Case, CaseWriter};

/// A generated request before the implementation is run on it.
pub struct Req {
    pub req: String,
    pub cls: String,
}

/// What the implementation did on one request.
pub struct Outcome {
    pub imp: String,
    pub t3: Vec<String>,
}

pub fn drive(args: &Args, reqs: Vec<Req>, run: impl Fn(&str) -> Outcome) {
    let mut w = CaseWriter::create(&args.out);
    for r in reqs {
        let o = match h_util::guarded(|| run(&r.req)) {
            Ok(o) => o,
            Err(()) => Outcome { imp: "panic".into(), t3: vec![] },
        };
        w.push(Case { req: r.req, imp: o.imp, cls: r.cls, t3: o.t3 });
    }
    w.finish();
}

fn main() {
    let args = h_util::parse_args();
    h_util::quiet_panics();
    match args.prop.as_str() {
        "c04" => c04::main(&args),
        other => {
            eprintln!("unknown property {other}");
            std::process::exit(2);
        }
    }
}
