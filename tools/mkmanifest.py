#!/usr/bin/env python3
"""Regenerate MANIFEST.json from props/*.json (one file per claimed property)."""
import json, os, glob
ROOT = os.path.dirname(os.path.dirname(os.path.abspath(__file__)))
man = json.load(open(os.path.join(ROOT, "MANIFEST.json")))
ids = [json.loads(l)["id"] for l in open(os.path.join(ROOT, "properties.jsonl"))]
checks, claimed = [], []
# only properties the coordinator has verified (./check exits 0 on the current tree) are claimed
verified = set(open(os.path.join(ROOT, "props", "claimed.txt")).read().split())
for pid in ids:
    if pid not in verified:
        continue
    p = os.path.join(ROOT, "props", pid + ".json")
    if not os.path.exists(p):
        continue
    c = json.load(open(p))
    if c.get("disabled"):
        continue
    claimed.append(pid)
    checks.append({
        "property_id": pid,
        "quick_cmd": f"./check {pid} --tier quick",
        "thorough_cmd": f"./check {pid} --tier thorough",
        "evidence_file": f"/verif/evidence/{pid}.json",
        "replay_cmd_template": f"./check {pid} --replay {{path}}",
        "engine": "lean4-proof+correspondence",
        "level_claimed": {"category": "proof", "text": c["level_text"], "design_ref": c.get("design_ref", "DESIGN.md §6 " + pid)},
        "level_note": c["level_note"],
        "technique": c["technique"],
    })
man["checks"] = checks
man["engines"][0]["serves_properties"] = claimed
na_path = os.path.join(ROOT, "props", "not_applicable.json")
na = json.load(open(na_path)) if os.path.exists(na_path) else {}
man["not_applicable"] = [{"property_id": i, "reason": na.get(i, "check not built yet (work in progress; the design in DESIGN.md §6 applies)")} for i in ids if i not in claimed]
json.dump(man, open(os.path.join(ROOT, "MANIFEST.json"), "w"), indent=1)
print("claimed:", claimed)
