#!/usr/bin/env python3
"""Regenerate the block between the STATUS markers of DESIGN.md from the files that hold the facts:
props/claimed.txt, lean/RumaModel/Props/*.lean (`#print axioms` lines = obligations), findings/*.json +
known_findings.json, mutants/*/RESULTS.json, seeded/*/meta.json, evidence/*.json."""
import glob, json, os, re
ROOT = os.path.dirname(os.path.dirname(os.path.abspath(__file__)))
B, E = "<!-- BEGIN GENERATED STATUS (tools/mkstatus.py) -->", "<!-- END GENERATED STATUS -->"
ids = [json.loads(l)["id"] for l in open(os.path.join(ROOT, "properties.jsonl"))]
claimed = set(open(os.path.join(ROOT, "props", "claimed.txt")).read().split())
out = []
w = out.append

def findings(pid):
    r = []
    for p in (os.path.join(ROOT, "known_findings.json"), os.path.join(ROOT, "findings", pid + ".json")):
        if os.path.exists(p):
            r += [e for e in json.load(open(p))["findings"] if e["property"] == pid]
    return r

def load_results(rp):
    """RESULTS.json as written by tools/mutant-sweep ({path: {kind, verdict, as_expected, …}}); a plain
    {"name": "caught|missed|passed(neutral)"} map written by hand is normalised to the same shape."""
    out = {}
    for k, v in json.load(open(rp)).items():
        if isinstance(v, str):
            neutral = os.path.basename(k).startswith("neutral")
            verdict = "caught" if v.startswith("caught") else ("passed" if v.startswith("passed") else v)
            v = {"kind": "neutral" if neutral else "breaking", "verdict": verdict,
                 "as_expected": (verdict == "passed") if neutral else (verdict == "caught")}
        if not k.startswith("mutants/") and not k.startswith("seeded/"):
            k = "mutants/" + os.path.basename(os.path.dirname(rp)) + "/" + k
        out[k] = v
    return out

w(B)
w("")
w("### 11.1 Per property: obligations, tie, findings")
w("")
w("| Id | claimed | theorems (kernel-checked, axioms ⊆ {propext, Classical.choice, Quot.sound}) | cases quick (last run) | fixed / known findings | self-test mutants (caught/breaking, neutral passed) | independent seeded changes (caught/total, strengthened) |")
w("|---|---|---|---|---|---|---|")
for pid in ids:
    pf = os.path.join(ROOT, "lean", "RumaModel", "Props", pid + ".lean")
    names = re.findall(r"^#print axioms\s+([\w.']+)", open(pf).read(), re.M) if os.path.exists(pf) else []
    ev = os.path.join(ROOT, "evidence", pid + ".json")
    cases = ""
    if os.path.exists(ev):
        e = json.load(open(ev)); cases = f"{e['coverage'].get('evaluations', '')} ({e.get('tier', '')})"
    fs = findings(pid)
    fixed = [f for f in fs if f["status"] == "fixed"]
    known = sorted(set(f["what"][:60] for f in fs if f["status"] == "known"))
    rp = os.path.join(ROOT, "mutants", pid, "RESULTS.json")
    mt = ""
    nm = len(glob.glob(os.path.join(ROOT, "mutants", pid, "*.patch")))
    if os.path.exists(rp):
        r = {k: v for k, v in load_results(rp).items() if k.startswith("mutants/")}
        br = [v for v in r.values() if v["kind"] == "breaking"]; ne = [v for v in r.values() if v["kind"] == "neutral"]
        mt = f"{sum(v['verdict'] == 'caught' for v in br)}/{len(br)}, {sum(v['verdict'] == 'passed' for v in ne)}/{len(ne)}"
    elif nm:
        mt = f"{nm} patches (verdicts in the builder's report; sweep not recorded)"
    sd = sorted(glob.glob(os.path.join(ROOT, "seeded", pid + "-*", "meta.json")))
    sc = sm = ss = 0
    for s in sd:
        v = json.load(open(s)).get("verif", {})
        res = v.get("result", "")
        if v.get("strengthened"): sc += 1; ss += 1
        elif res.lower().startswith("caught"): sc += 1
        elif "caught after" in res.lower(): sc += 1; ss += 1
        else: sm += 1
    seeded = f"{sc}/{len(sd)}" + (f", {ss} after strengthening" if ss else "") + (f", {sm} NOT caught" if sm else "") if sd else "—"
    w(f"| {pid} | {'yes' if pid in claimed else 'no'} | {len(names)}: " + ", ".join(f"`{n.split('.')[-1]}`" for n in names) + f" | {cases} | {len(fixed)} fixed / {len(known)} known | {mt} | {seeded} |")
w("")
w("### 11.2 Genuine defects of the pinned tree (from findings/*.json, known_findings.json)")
w("")
w("| Property | status | commit | what |")
w("|---|---|---|---|")
seen = set()
for pid in ids:
    for f in findings(pid):
        if f["status"] not in ("fixed", "known"): continue
        key = (pid, f["status"], f.get("commit", ""), f["what"][:80])
        if key in seen: continue
        seen.add(key)
        what = re.sub(r"^(fixed|known): property=\w+ (\w+ )?", "", f["what"]).replace("|", "\\|").replace("\n", " ")
        w(f"| {pid} | {f['status']} | {f.get('commit', '')[:7]} | {what[:420]} |")
w("")
w("### 11.3 Independent seeded changes (seeded/<id>/meta.json) and which check caught them")
w("")
w("| Seed | change (needs to manifest) | result of `tools/mutant-test` (quick tier) |")
w("|---|---|---|")
for s in sorted(glob.glob(os.path.join(ROOT, "seeded", "*", "meta.json"))):
    m = json.load(open(s)); name = os.path.basename(os.path.dirname(s))
    ch = (m.get("change") or m.get("breaks") or "")
    if isinstance(ch, list): ch = " ".join(ch)
    need = m.get("needs_to_manifest", "")
    if isinstance(need, list): need = " ".join(need)
    v = m.get("verif", {})
    esc = lambda x: str(x).replace("|", "\\|").replace("\n", " ")
    w(f"| {name} | {esc(ch)[:300]} — *needs:* {esc(need)[:260]} | {esc(v.get('result', 'not run'))[:420]} |")
w("")
w("### 11.3b Independent HARMLESS changes (seeded/neutral/<id>/meta.json): refactors, reordered independent checks, reworded errors, swapped containers — the checks must stay quiet")
w("")
w("| Change | kind | result of `tools/mutant-test` (quick tier, escalated budget) |")
w("|---|---|---|")
for s in sorted(glob.glob(os.path.join(ROOT, "seeded", "neutral", "*", "meta.json"))):
    m = json.load(open(s)); name = os.path.basename(os.path.dirname(s))
    esc = lambda x: str(x).replace("|", "\\|").replace("\n", " ")
    w(f"| {name} | {esc(m.get('kind', ''))[:260]} | {esc(m.get('verif', {}).get('result', 'not run'))[:200]} |")
w("")
w("### 11.4 Self-test mutants with recorded verdicts (mutants/<id>/RESULTS.json)")
w("")
for pid in ids:
    rp = os.path.join(ROOT, "mutants", pid, "RESULTS.json")
    if not os.path.exists(rp): continue
    r = load_results(rp)
    w(f"* **{pid}**: " + "; ".join(f"{os.path.basename(k)[:-6] if k.endswith('.patch') else k} → {v['verdict']}{'' if v['as_expected'] else ' (UNEXPECTED)'}" for k, v in sorted(r.items())))
w("")
w(E)
p = os.path.join(ROOT, "DESIGN.md")
s = open(p).read()
blk = "\n".join(out)
if B in s:
    s = s[:s.index(B)] + blk + s[s.index(E) + len(E):]
else:
    s = s.rstrip("\n") + "\n\n" + blk + "\n"
open(p, "w").write(s)
print("DESIGN.md status block regenerated:", len(out), "lines")
