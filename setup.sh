#!/bin/sh
# Build the framework from files on disk only (offline): harness crates against /repo, Lean project.
# Each harness crate is built with `-p` exactly as ./check builds it (cargo's feature resolution
# differs between `--workspace` and `-p`, so a workspace build would neither warm the per-crate
# builds nor compile at all where one crate turns on an unstable feature of a shared ruma crate).
cd "$(dirname "$0")"
export RUSTUP_TOOLCHAIN=1.88.0 CARGO_NET_OFFLINE=true
export RUSTFLAGS="--cfg ruma_verif --check-cfg cfg(ruma_verif)"
mkdir -p work evidence replays
rc=0
crates=""
targets=""
for f in props/C*.json; do
  id=$(basename "$f" .json)
  lc=$(echo "$id" | tr 'A-Z' 'a-z')
  crate=$(python3 -c "import json,sys; print(json.load(open('$f')).get('crate') or 'h-$lc')")
  case " $crates " in *" $crate "*) ;; *) crates="$crates $crate";; esac
  targets="$targets RumaModel.Props.$id drv-$lc"
done
for c in $crates; do
  echo "[setup] cargo build -p $c"
  (cd harness && cargo build --offline --release -p "$c" 2>&1 | grep -E "^error|Finished|could not compile" | tail -5)
  [ -x "harness/target/release/$c" ] || { echo "[setup] FAILED to build $c"; rc=1; }
done
echo "[setup] lake build"
(cd lean && lake build $targets 2>&1 | grep -E "error|Build completed|build failed" | tail -10)
exit $rc
