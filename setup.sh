#!/bin/sh
# Build the framework from files on disk only (offline): harness crates against /repo, Lean project.
set -e
cd "$(dirname "$0")"
export RUSTUP_TOOLCHAIN=1.88.0 CARGO_NET_OFFLINE=true
export RUSTFLAGS="--cfg ruma_verif --check-cfg cfg(ruma_verif)"
mkdir -p work evidence replays
(cd harness && cargo build --offline --release --workspace 2>&1 | tail -3)
targets=""
for f in props/C*.json; do
  id=$(basename "$f" .json)
  lc=$(echo "$id" | tr 'A-Z' 'a-z')
  targets="$targets RumaModel.Props.$id drv-$lc"
done
(cd lean && lake build $targets 2>&1 | tail -3)
